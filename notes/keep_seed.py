#!/usr/bin/env python3
"""keep_seed.py <PID> <A|B> <caught|missed> "<checks/result line>" ["needs" text]  -- copy a confirmed seeded change to /verif/seeded/<PID>-<A|B>/"""
import json, os, shutil, sys
pid, which, verdict, result = sys.argv[1:5]
needs = sys.argv[5] if len(sys.argv) > 5 else ""
src = f"/tmp/seed-out/{pid}/{which}"
dst = f"/verif/seeded/{pid}-{which}"
os.makedirs(dst, exist_ok=True)
for f in os.listdir(src):
    if f in ("patch.diff", "demo.rs", "run.txt", "notes.md") or f.startswith("demo"):
        p = os.path.join(src, f)
        if os.path.isdir(p):
            shutil.copytree(p, os.path.join(dst, f), dirs_exist_ok=True)
        else:
            shutil.copy(p, dst)
notes = open(os.path.join(src, "notes.md")).read() if os.path.exists(os.path.join(src, "notes.md")) else ""
meta = {
    "id": f"{pid}-{which}",
    "breaks_property": pid,
    "needs_to_manifest": needs or notes[:1200],
    "origin": "fresh sub-agent given only the property text and its own scratch worktree of /repo",
    "confirmed_by": "notes/confirm_seed.py in a scratch worktree: demo passes on the clean tree, fails with patch.diff applied, `cargo test --workspace --offline` still passes with the patch",
    "checks_run": f"notes/mutest.sh seeded/{pid}-{which}/patch.diff <property> quick  (git -C /repo apply; ./check; git -C /repo checkout -- .)",
    "verdict": verdict,
    "result": result,
}
json.dump(meta, open(os.path.join(dst, "meta.json"), "w"), indent=1)
print("kept", dst)
