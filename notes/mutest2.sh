#!/bin/bash
# like /verif/notes/mutest.sh but on a scratch clone of /verif (/tmp/vmut) whose path dependencies point at a scratch
# setup: git clone /verif /tmp/vmut; git -C /repo worktree add --detach /tmp/repo-mut HEAD; sed -i "s#/repo/#/tmp/repo-mut/#g" /tmp/vmut/harness/Cargo.toml   (remove both when done)
# worktree of /repo (/tmp/repo-mut): used while long background runs occupy /repo itself
set -u
patch=$1; pid=$2; tier=${3:-quick}
cd /tmp/repo-mut || exit 9
git checkout -q -- . ; git clean -fdq
git apply "$patch" || { echo "patch does not apply"; exit 9; }
cd /tmp/vmut
t0=$(date +%s)
./check $pid --tier $tier > /tmp/mutest2-$pid.log 2>&1
rc=$?
grep -E "VIOLATION|KNOWN|INCONCLUSIVE|^OK" /tmp/mutest2-$pid.log | sed 's/replay=[^ ]*//' | cut -c1-240 | head -8
git -C /tmp/repo-mut checkout -q -- .
echo "mutest2 rc=$rc wall=$(( $(date +%s) - t0 ))s property=$pid patch=$patch"
