#!/usr/bin/env python3
"""Confirm a seeded change delivered by a mutation sub-agent, independently of the agent:
   usage: confirm_seed.py <PID> <A|B> [--src /tmp/seed-out]
   1. in a scratch worktree of /repo (outside /repo and /verif): the demo passes on the clean tree,
   2. with patch.diff applied the demo fails, and
   3. the pinned test suite (cargo test --workspace --offline) still passes with the patch.
   Prints CONFIRMED / NOT-CONFIRMED and what was run.  The worktree is cleaned afterwards (build output kept
   in /tmp/confirm-target for speed; remove it when done with all confirmations)."""
import os
import re
import shlex
import subprocess
import sys

pid, which = sys.argv[1], sys.argv[2]
src = "/tmp/seed-out"
if "--src" in sys.argv:
    src = sys.argv[sys.argv.index("--src") + 1]
d = os.path.join(src, pid, which)
wt = "/tmp/confirm-wt"
env = dict(os.environ, CARGO_NET_OFFLINE="true", CARGO_TARGET_DIR="/tmp/confirm-target", CARGO_TERM_COLOR="never")


def sh(cmd, **kw):
    return subprocess.run(cmd, shell=True, cwd=wt, env=env, stdout=subprocess.PIPE, stderr=subprocess.STDOUT, text=True, **kw)


if not os.path.isdir(wt):
    subprocess.run(["git", "-C", "/repo", "worktree", "add", "-q", "--detach", wt, "HEAD"], check=True)
sh("git checkout -q --detach $(git -C /repo rev-parse HEAD) && git checkout -- . && git clean -fdq")
run = open(os.path.join(d, "run.txt")).read().replace("\\\n", " ")
# the demo: copy line(s) + cargo command from run.txt, retargeted to the confirm worktree
cmds = []
for line in run.splitlines():
    s = line.strip()
    if s.startswith("#") or not s:
        continue
    s = s.replace(f"/tmp/seedwt-{pid}", wt)
    if re.match(r"^(cp|mkdir) ", s) and "seed-out" in s or re.match(r"^mkdir ", s):
        cmds.append(s)
    m = re.search(r"(cargo (test|run)\b.*)$", s)
    if m and "--workspace" not in s and "git apply" not in s:
        c = m.group(1).replace(" -j 4", "")
        if c not in cmds:
            cmds.append(c)
        break
demo = " && ".join(cmds)
print("demo command:", demo)
clean = sh(demo)
print("clean tree: exit", clean.returncode)
ap = sh(f"git apply {shlex.quote(os.path.join(d, 'patch.diff'))}")
if ap.returncode != 0:
    print("NOT-CONFIRMED: patch does not apply:", ap.stdout[-500:])
    sys.exit(1)
patched = sh(demo)
print("patched tree: exit", patched.returncode)
tail = [l for l in patched.stdout.splitlines() if "FAILED" in l or "panicked" in l or "test result" in l][:6]
print("   ", "\n    ".join(tail))
# remove the demo before the suite (it is not part of the pinned tests), keep the library patch
sh("git clean -fdq")
suite = sh("cargo test --workspace --offline 2>&1 | grep -E '^test result|FAILED|failed|error' ")
bad = [l for l in suite.stdout.splitlines() if "FAILED" in l or "failed;" in l and " 0 failed" not in l or l.startswith("error")]
nres = len([l for l in suite.stdout.splitlines() if l.startswith("test result")])
print(f"pinned suite with patch: {nres} result lines, problems: {bad[:3]}")
sh("git checkout -- . && git clean -fdq")
ok = clean.returncode == 0 and patched.returncode != 0 and not bad and nres > 10
print("CONFIRMED" if ok else "NOT-CONFIRMED", pid, which)
sys.exit(0 if ok else 1)
