#!/usr/bin/env python3
# prints the prompt given to a mutation sub-agent for one property (only the property text + its own worktree)
import json,sys
pid=sys.argv[1]
for l in open('/verif/properties.jsonl'):
    p=json.loads(l)
    if p['id']==pid: break
print(f"""You are helping test a verification framework by producing realistic *breaking changes* (mutants) for an open-source Rust project, rust-lexical (number<->string conversion crates). You have your own scratch git worktree of the repository at /tmp/seedwt-{pid} (work ONLY there and in /tmp/seed-out/{pid}/; do not read or touch /verif or /repo; there is no network: always pass --offline to cargo, CARGO_NET_OFFLINE=true).

The property that must be broken:

  Title: {p['title']}
  Statement: {p['statement']}
  Quantified over: {p['quantifier']['text']}

Task: produce TWO independent source changes (mutant A and mutant B, touching different mechanisms / files where possible) to the library crates (lexical-util, lexical-parse-integer, lexical-parse-float, lexical-write-integer, lexical-write-float, lexical-core, lexical) such that for EACH of them:
 1. the workspace still compiles, and the existing test suite still passes completely: `cd /tmp/seedwt-{pid} && cargo test --workspace --offline 2>&1 | grep -E "^test result|FAILED|failed"` must show no failures (also it must still compile with `cargo check --offline -p lexical-core --features radix,format` and `--features compact`);
 2. the change breaks the property above for some inputs/configurations — but it must need something SPECIFIC to manifest (an unusual input, a particular digit count or exponent range, a particular radix/format/option combination, a particular cargo feature set, a boundary value, a multi-step write-then-parse sequence, or two cooperating edits that each look fine alone), NOT something ordinary use would expose at once. It should look like a plausible human mistake or a plausible 'optimisation'/'refactor' (off-by-one in a limit or table, wrong constant in one table row, dropped check, wrong mask, wrong branch for one feature), not sabotage like `if input == magic`.
 3. you provide a demonstration: a small standalone Rust test file (an integration test, e.g. lexical-core/tests/seeded_demo.rs, or a tiny bin crate with a path dependency) that FAILS with the change applied and PASSES on the unmodified tree. State exactly how to run it (command line incl. cargo features).

Deliverables, written to /tmp/seed-out/{pid}/A/ and /tmp/seed-out/{pid}/B/ :
  - patch.diff   : `git diff` of the library change ONLY (must apply with `git apply` to a clean checkout of HEAD; do not include the demo in it)
  - demo.rs (or demo/ directory) : the demonstration, plus run.txt with the exact commands to run it and the expected failing/passing output
  - notes.md : which clause of the property it breaks, what is needed for it to manifest (inputs/config/features), why the existing tests do not notice.
Verify everything yourself (clean tree: demo passes; patched tree: demo fails, full test-suite passes). When finished, restore the worktree to a clean state (`git -C /tmp/seedwt-{pid} checkout -- . && git -C /tmp/seedwt-{pid} clean -fdq`) and delete build output (`rm -rf /tmp/seedwt-{pid}/target`) to save disk. Keep builds modest (use `-j 4`). Reply with a short summary of the two mutants.""")
