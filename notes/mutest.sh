#!/bin/bash
# usage: mutest.sh <patch.diff> <PID> [tier]  -- apply a seeded change to /repo, run the check, undo
set -u
patch=$1; pid=$2; tier=${3:-quick}
cd /repo || exit 9
if ! git diff --quiet; then echo "repo dirty"; exit 9; fi
git apply "$patch" || { echo "patch does not apply"; exit 9; }
cd /verif && cp evidence/$pid.json /tmp/ev-$pid.bak 2>/dev/null
./check $pid --tier $tier 2>&1 | grep -E "VIOLATION|KNOWN|INCONCLUSIVE|^OK" | cut -c1-300 | head -12
rc=${PIPESTATUS[0]}
cp /tmp/ev-$pid.bak evidence/$pid.json 2>/dev/null
git -C /repo checkout -- .
echo "mutest rc=$rc patch=$patch"
