#!/bin/bash
# usage: mutest.sh <patch.diff> <PID> [tier]  -- apply a seeded change to /repo, run the check, undo (evidence restored)
set -u
patch=$1; pid=$2; tier=${3:-quick}
# one seeded change at a time: /repo is shared. NEVER commit in /repo while /tmp/REPO_MUTATED exists.
exec 9>/tmp/repo-mutest.lock; flock 9
cd /repo || exit 9
if ! git diff --quiet; then echo "repo dirty"; exit 9; fi
git apply "$patch" || { echo "patch does not apply"; exit 9; }
echo "$patch" > /tmp/REPO_MUTATED
cd /verif && cp evidence/$pid.json /tmp/ev-$pid.bak 2>/dev/null
t0=$(date +%s)
./check $pid --tier $tier > /tmp/mutest-$pid.log 2>&1
rc=$?
grep -E "VIOLATION|KNOWN|INCONCLUSIVE|^OK" /tmp/mutest-$pid.log | cut -c1-260 | head -8
cp /tmp/ev-$pid.bak evidence/$pid.json 2>/dev/null
git -C /repo checkout -- .
rm -f /tmp/REPO_MUTATED
echo "mutest rc=$rc wall=$(( $(date +%s) - t0 ))s property=$pid patch=$patch"
