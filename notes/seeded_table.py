#!/usr/bin/env python3
"""Regenerate section 9 of DESIGN.md (table of seeded changes) from seeded/*/meta.json."""
import glob, json, os, re
root = os.path.dirname(os.path.dirname(os.path.abspath(__file__)))
rows = []
for f in sorted(glob.glob(os.path.join(root, "seeded", "*", "meta.json"))):
    m = json.load(open(f))
    needs = re.sub(r"\s+", " ", m["needs_to_manifest"])[:230].replace("|", "/")
    res = re.sub(r"\s+", " ", m["result"])[:330].replace("|", "/")
    rows.append(f"| {m['id']} | {needs} | {m['verdict']} | {res} |")
table = "| change | needs to manifest | verdict | which check reports it (quick tier) |\n|---|---|---|---|\n" + "\n".join(rows)
p = os.path.join(root, "DESIGN.md")
s = open(p).read()
start = s.index("## 9. Seeded changes")
head = s[:start]
body = ("## 9. Seeded changes and which check catches them\n\n"
        "68 changes (two per property; a second round of eight aimed at the memory clauses and the unchecked index / SWAR code; a third and a fourth round of twelve and ten asked to avoid the mechanisms already used), each written by a fresh sub-agent that saw only the property text, each confirmed\n"
        "independently (demo passes clean / fails patched / pinned suite passes patched) before being kept in `seeded/`.\n"
        "67 are reported by the quick tier of the check of the property they target; C19-B is not, because under the\n"
        "reading of the statement that the unchanged tree satisfies it is not a violation (see its row).  Eleven were MISSED\n"
        "by the first version of a check and led to a stronger workload or monitor (C02-A: M-return watchdog; C05-A:\n"
        "far-sticky-digit placements; C09-B: integer sweep over every radix; C13-A: formats whose mantissa radix is\n"
        "smaller than the exponent radix; C17-A: hostile options offered to the builder; C09m-A: power-of-two-only build + immediate canary reports; C10m-A: multi-digit integer options; C12x-A: finer format trait in the known-finding signatures; C16x-B: no-std compact build in the quick tier; C11y-A: root-cause recogniser instead of a trait-keyed finding; C15y-B: sign of a parsed zero judged under C15).  A stricter C19 oracle tried for\n"
        "C19-B raised alarms on the unchanged tree (also seen by `vp check`) and was withdrawn.\n\n" + table + "\n")
open(p, "w").write(head + body)
print(len(rows), "rows")
