#!/bin/bash
# run the thorough tier of every check, one after the other; summary lines on stdout, full logs in work/thorough-<id>.log
cd "$(dirname "$0")/.."
mkdir -p work
seed=${1:-0}
for p in ${THOROUGH_LIST:-C16 C18 C01 C06 C07 C05 C19 C02 C04 C03 C12 C13 C11 C15 C10 C14 C08 C17 C09}; do
  t0=$(date +%s)
  VERIF_SEED=$seed ./check $p --tier thorough > work/thorough-$p.log 2>&1
  rc=$?
  echo "$p thorough seed=$seed rc=$rc wall=$(( $(date +%s) - t0 ))s: $(grep -cE '^VIOLATION' work/thorough-$p.log) violations, $(grep -cE '^INCONCLUSIVE' work/thorough-$p.log) inconclusive, $(grep -cE '^KNOWN' work/thorough-$p.log) known; $(grep -E '^OK' work/thorough-$p.log | cut -c1-120)"
  grep -E '^VIOLATION|^INCONCLUSIVE' work/thorough-$p.log | cut -c1-300 | head -6
done
echo ALLTHOROUGH-DONE
