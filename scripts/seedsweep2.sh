#!/bin/bash
# quick tier of the parse-table checks at several seeds
cd "$(dirname "$0")/.."
mkdir -p work
for seed in "$@"; do
  for p in C11 C12 C13 C15 C10; do
    t0=$(date +%s)
    VERIF_SEED=$seed ./check $p --tier quick > work/sweep-$p-$seed.log 2>&1
    rc=$?
    echo "$p quick seed=$seed rc=$rc wall=$(( $(date +%s) - t0 ))s: $(grep -cE '^VIOLATION' work/sweep-$p-$seed.log) violations, $(grep -cE '^INCONCLUSIVE' work/sweep-$p-$seed.log) inconclusive"
    grep -E '^VIOLATION|^INCONCLUSIVE' work/sweep-$p-$seed.log | sed 's/replay=[^ ]*//' | cut -c1-260 | head -6
  done
done
echo SWEEP-DONE
