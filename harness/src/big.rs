//! Minimal arbitrary-precision unsigned integer for the exact oracles.
//! Written for obviousness, not speed: u32 limbs, schoolbook algorithms.
//! Self-tested against u128 arithmetic (see `selftest`) and against CPython
//! big integers by `vlib/selftest.py`.

use std::cmp::Ordering;

#[derive(Clone, Debug, PartialEq, Eq)]
pub struct Big {
    /// little-endian limbs, no trailing zero limbs (zero == empty)
    pub d: Vec<u32>,
}

impl Big {
    pub fn zero() -> Big {
        Big { d: Vec::new() }
    }
    pub fn from_u64(x: u64) -> Big {
        Big::from_u128(x as u128)
    }
    pub fn from_u128(mut x: u128) -> Big {
        let mut d = Vec::new();
        while x != 0 {
            d.push(x as u32);
            x >>= 32;
        }
        Big { d }
    }
    pub fn is_zero(&self) -> bool {
        self.d.is_empty()
    }
    fn trim(&mut self) {
        while let Some(&0) = self.d.last() {
            self.d.pop();
        }
    }
    pub fn bit_length(&self) -> u64 {
        match self.d.last() {
            None => 0,
            Some(&hi) => (self.d.len() as u64 - 1) * 32 + (32 - hi.leading_zeros() as u64),
        }
    }
    pub fn to_u128(&self) -> Option<u128> {
        if self.d.len() > 4 {
            return None;
        }
        let mut x = 0u128;
        for (i, &l) in self.d.iter().enumerate() {
            x |= (l as u128) << (32 * i);
        }
        Some(x)
    }
    pub fn mul_small(&mut self, m: u32) {
        if m == 0 {
            self.d.clear();
            return;
        }
        let mut carry = 0u64;
        for l in self.d.iter_mut() {
            let t = (*l as u64) * (m as u64) + carry;
            *l = t as u32;
            carry = t >> 32;
        }
        if carry != 0 {
            self.d.push(carry as u32);
        }
    }
    pub fn add_small(&mut self, a: u32) {
        let mut carry = a as u64;
        for l in self.d.iter_mut() {
            if carry == 0 {
                return;
            }
            let t = (*l as u64) + carry;
            *l = t as u32;
            carry = t >> 32;
        }
        if carry != 0 {
            self.d.push(carry as u32);
        }
    }
    /// self /= m, returns remainder
    pub fn divrem_small(&mut self, m: u32) -> u32 {
        let mut rem = 0u64;
        for l in self.d.iter_mut().rev() {
            let cur = (rem << 32) | (*l as u64);
            *l = (cur / m as u64) as u32;
            rem = cur % m as u64;
        }
        self.trim();
        rem as u32
    }
    pub fn mul(&self, o: &Big) -> Big {
        if self.is_zero() || o.is_zero() {
            return Big::zero();
        }
        let mut r = vec![0u32; self.d.len() + o.d.len()];
        for (i, &a) in self.d.iter().enumerate() {
            let mut carry = 0u64;
            for (j, &b) in o.d.iter().enumerate() {
                let t = (a as u64) * (b as u64) + (r[i + j] as u64) + carry;
                r[i + j] = t as u32;
                carry = t >> 32;
            }
            let mut k = i + o.d.len();
            while carry != 0 {
                let t = (r[k] as u64) + carry;
                r[k] = t as u32;
                carry = t >> 32;
                k += 1;
            }
        }
        let mut b = Big { d: r };
        b.trim();
        b
    }
    pub fn add(&self, o: &Big) -> Big {
        let (a, b) = if self.d.len() >= o.d.len() { (self, o) } else { (o, self) };
        let mut r = a.d.clone();
        let mut carry = 0u64;
        for i in 0..r.len() {
            let t = (r[i] as u64) + (*b.d.get(i).unwrap_or(&0) as u64) + carry;
            r[i] = t as u32;
            carry = t >> 32;
            if carry == 0 && i >= b.d.len() {
                break;
            }
        }
        if carry != 0 {
            r.push(carry as u32);
        }
        Big { d: r }
    }
    /// self - o, requires self >= o
    pub fn sub(&self, o: &Big) -> Big {
        assert!(self.cmp(o) != Ordering::Less, "Big::sub underflow");
        let mut r = self.d.clone();
        let mut borrow = 0i64;
        for i in 0..r.len() {
            let t = (r[i] as i64) - (*o.d.get(i).unwrap_or(&0) as i64) - borrow;
            if t < 0 {
                r[i] = (t + (1i64 << 32)) as u32;
                borrow = 1;
            } else {
                r[i] = t as u32;
                borrow = 0;
            }
        }
        let mut b = Big { d: r };
        b.trim();
        b
    }
    pub fn shl(&self, bits: u64) -> Big {
        if self.is_zero() {
            return Big::zero();
        }
        let limbs = (bits / 32) as usize;
        let sh = (bits % 32) as u32;
        let mut r = vec![0u32; limbs];
        if sh == 0 {
            r.extend_from_slice(&self.d);
        } else {
            let mut carry = 0u32;
            for &l in &self.d {
                r.push((l << sh) | carry);
                carry = l >> (32 - sh);
            }
            if carry != 0 {
                r.push(carry);
            }
        }
        Big { d: r }
    }
    /// floor(self / 2^bits), and whether any shifted-out bit was set
    pub fn shr_sticky(&self, bits: u64) -> (Big, bool) {
        let limbs = (bits / 32) as usize;
        let sh = (bits % 32) as u32;
        if limbs >= self.d.len() {
            return (Big::zero(), !self.is_zero());
        }
        let mut sticky = self.d[..limbs].iter().any(|&l| l != 0);
        let mut r = Vec::with_capacity(self.d.len() - limbs);
        if sh == 0 {
            r.extend_from_slice(&self.d[limbs..]);
        } else {
            sticky |= (self.d[limbs] & ((1u32 << sh) - 1)) != 0;
            for i in limbs..self.d.len() {
                let lo = self.d[i] >> sh;
                let hi = if i + 1 < self.d.len() { self.d[i + 1] << (32 - sh) } else { 0 };
                r.push(lo | hi);
            }
        }
        let mut b = Big { d: r };
        b.trim();
        (b, sticky)
    }
    pub fn cmp(&self, o: &Big) -> Ordering {
        if self.d.len() != o.d.len() {
            return self.d.len().cmp(&o.d.len());
        }
        for i in (0..self.d.len()).rev() {
            if self.d[i] != o.d[i] {
                return self.d[i].cmp(&o.d[i]);
            }
        }
        Ordering::Equal
    }
    pub fn pow(base: u32, mut exp: u64) -> Big {
        let mut result = Big::from_u64(1);
        if exp == 0 {
            return result;
        }
        // small-multiplier chunks: base^k fitting u32
        let mut chunk = base as u64;
        let mut k = 1u64;
        while chunk * (base as u64) <= u32::MAX as u64 {
            chunk *= base as u64;
            k += 1;
        }
        if exp < 64 * k {
            while exp >= k {
                result.mul_small(chunk as u32);
                exp -= k;
            }
            for _ in 0..exp {
                result.mul_small(base);
            }
            return result;
        }
        // square and multiply
        let mut b = Big::from_u64(base as u64);
        loop {
            if exp & 1 == 1 {
                result = result.mul(&b);
            }
            exp >>= 1;
            if exp == 0 {
                break;
            }
            b = b.mul(&b);
        }
        result
    }
    /// digits are values (0..radix), most significant first
    pub fn from_digits(radix: u32, digits: &[u8]) -> Big {
        let mut r = Big::zero();
        // chunk to reduce passes
        let mut chunk = radix as u64;
        let mut k = 1usize;
        while chunk * (radix as u64) <= u32::MAX as u64 {
            chunk *= radix as u64;
            k += 1;
        }
        let mut i = 0;
        while i + k <= digits.len() {
            let mut v = 0u64;
            for &dg in &digits[i..i + k] {
                debug_assert!((dg as u32) < radix);
                v = v * radix as u64 + dg as u64;
            }
            r.mul_small(chunk as u32);
            r.add_small(v as u32);
            i += k;
        }
        while i < digits.len() {
            r.mul_small(radix);
            r.add_small(digits[i] as u32);
            i += 1;
        }
        r
    }
    /// digit values most significant first ("0" -> [0])
    pub fn to_digits(&self, radix: u32) -> Vec<u8> {
        if self.is_zero() {
            return vec![0];
        }
        let mut t = self.clone();
        let mut out = Vec::new();
        while !t.is_zero() {
            out.push(t.divrem_small(radix) as u8);
        }
        out.reverse();
        out
    }
    pub fn to_dec_string(&self) -> String {
        self.to_digits(10).iter().map(|&d| (b'0' + d) as char).collect()
    }
}

/// internal consistency test against u128 arithmetic; returns number of checks
pub fn selftest(seed: u64) -> Result<u64, String> {
    let mut rng = crate::rng::Rng::new(seed ^ 0xb16);
    let mut n = 0u64;
    for _ in 0..20000 {
        let a = rng.next_u64() >> (rng.below(64) as u32);
        let b = rng.next_u64() >> (rng.below(64) as u32);
        let (ba, bb) = (Big::from_u64(a), Big::from_u64(b));
        if ba.mul(&bb).to_u128() != Some(a as u128 * b as u128) {
            return Err(format!("mul {a} {b}"));
        }
        if ba.add(&bb).to_u128() != Some(a as u128 + b as u128) {
            return Err(format!("add {a} {b}"));
        }
        if a >= b && ba.sub(&bb).to_u128() != Some((a - b) as u128) {
            return Err(format!("sub {a} {b}"));
        }
        if ba.cmp(&bb) != a.cmp(&b) {
            return Err(format!("cmp {a} {b}"));
        }
        let s = rng.below(64);
        if ba.shl(s).to_u128() != Some((a as u128) << s) {
            return Err(format!("shl {a} {s}"));
        }
        let (q, st) = ba.shr_sticky(s);
        if q.to_u128() != Some((a >> s) as u128) || st != (a & ((1u64 << s) - 1) != 0) {
            return Err(format!("shr {a} {s}"));
        }
        let m = (rng.next_u64() as u32) | 1;
        let mut t = ba.mul(&bb);
        let r = t.divrem_small(m);
        let full = a as u128 * b as u128;
        if t.to_u128() != Some(full / m as u128) || r as u128 != full % m as u128 {
            return Err(format!("divrem {a} {b} {m}"));
        }
        let radix = 2 + rng.below(35) as u32;
        let digs = Big::from_u128(full).to_digits(radix);
        if Big::from_digits(radix, &digs).to_u128() != Some(full) {
            return Err(format!("digits {full} {radix}"));
        }
        n += 8;
    }
    // pow: both code paths against repeated mul_small
    for base in 2..=36u32 {
        for &e in &[0u64, 1, 5, 63, 64, 700, 1300] {
            let p = Big::pow(base, e);
            let mut q = Big::from_u64(1);
            for _ in 0..e {
                q.mul_small(base);
            }
            if p != q {
                return Err(format!("pow {base} {e}"));
            }
            n += 1;
        }
    }
    // (a*b) via schoolbook on big operands == via distributivity
    for _ in 0..200 {
        let a = Big::pow(3 + rng.below(30) as u32, 50 + rng.below(500));
        let b = Big::pow(3 + rng.below(30) as u32, 50 + rng.below(500));
        let c = Big::from_u64(rng.next_u64());
        let lhs = a.add(&c).mul(&b);
        let rhs = a.mul(&b).add(&c.mul(&b));
        if lhs != rhs {
            return Err("distributivity".into());
        }
        if lhs.sub(&a.mul(&b)) != c.mul(&b) {
            return Err("sub big".into());
        }
        n += 2;
    }
    Ok(n)
}
