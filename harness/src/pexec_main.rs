// Format-table parse executor.  `include!`d by the px_* bins, which define:
//   const SET: u32;  const PART: usize;      (64 formats per part)
// Runs hostile string workloads through complete + partial parsers of every format of the part
// (f64, i64 always; f32, u8 for every 4th format) and applies the oracles of
//   C10 totality, C11 partial/complete agreement, C12 grammar, C13 digit separators,
//   C15 special values (parse side), C18 invalid formats never yield a value, C19 lossy accept/reject equality.
// `prop=Cxx` restricts reporting to one property (all oracles always run; only matching violations are kept).

use std::collections::BTreeMap;
use vharness::big::Big;
use vharness::exec::*;
use vharness::fgen::digit_char;
use vharness::fmttab::{self, *};
use vharness::guard::{self, Arena};
use vharness::oracle::{self, digit_value};
use vharness::refgram::{self, IRec, POpts, Rec, SpecialKind};
use vharness::report::{self, obj, show, Args, Report};
use vharness::rng::Rng;

struct Cx<'a> {
    rep: &'a Report,
    cfg: String,
    prop: Option<String>,
    counts: BTreeMap<&'static str, u64>,
    arena: Arena,
    n: u64,
    distinct: u64,
    thorough: bool,
    /// Miri / valgrind sized workload
    small: bool,
    idx: usize,
    variant: u32,
}

struct FOpts {
    p: POpts,
    lex: lexical_core::ParseFloatOptions,
    lossy: lexical_core::ParseFloatOptions,
    name: String,
}

fn leak(v: &[u8]) -> &'static [u8] {
    Box::leak(v.to_vec().into_boxed_slice())
}

fn bump(cx: &mut Cx, k: &'static str) {
    *cx.counts.entry(k).or_insert(0) += 1;
}

fn viol(cx: &Cx, prop: &str, class: &str, d: &Desc, opts: &str, ty: &str, input: &[u8], detail: String) {
    if let Some(p) = &cx.prop {
        if p != prop {
            return;
        }
    }
    // signature = property | oracle class | type kind | format trait.  Known defects of niche format traits (see
    // known_findings.json) are keyed on the (class, trait) pair: a listed finding about e.g. base-suffix formats being
    // too strict cannot hide a base-suffix format being too lax, nor any violation in plain formats.
    let kind = if ty.starts_with('f') { "float" } else { "int" };
    let c = cause(d, class);
    let sig = format!("{prop}|{class}|{kind}|{c}");
    cx.rep.violation(
        &sig,
        obj(&[
            ("property", prop.into()),
            ("config", cx.cfg.clone()),
            ("profile", vharness::profile_name().into()),
            ("set", SET.to_string()),
            ("bin_part", PART.to_string()),
            ("idx", cx.idx.to_string()),
            ("variant", cx.variant.to_string()),
            ("format", d.name()),
            ("options", opts.into()),
            ("type", ty.into()),
            ("input", show(input)),
            ("detail", detail),
        ]),
    );
}

/// Traits of the format that known findings are keyed on (joined with '+'), so that a listed finding about e.g.
/// base-suffix formats cannot hide a violation in plain formats.  The driver treats a violation as known when
/// (class, one of these traits) is listed.
fn cause(d: &Desc, class: &str) -> String {
    // classes produced by a specific recogniser of one root cause are not split further
    if class.contains(':') {
        return "-".into();
    }
    let mut t: Vec<&str> = Vec::new();
    if d.suffix != 0 {
        t.push("base-suffix-format");
    }
    if d.prefix != 0 {
        t.push("base-prefix-format");
    }
    if !d.has(RMD) {
        // the recorded defect (empty input accepted) concerns formats that require no digits at all; with
        // required_integer_digits the empty input is rejected on the pinned tree, so those formats get their own trait
        t.push(if d.has(RID) { "no-required-mantissa-digits-but-required-integer-digits" } else { "no-required-mantissa-digits" });
    }
    if t.is_empty() {
        "-".into()
    } else {
        t.join("+")
    }
}

/// punctuation that is valid for the format: not a digit of the largest radix, not a sign, distinct
fn mk_opts(d: &Desc, variant: u32, rng: &mut Rng) -> FOpts {
    let maxr = (d.radix as u32).max(d.eradix());
    let ok = |c: u8, taken: &[u8]| digit_value(c) >= maxr && c != b'+' && c != b'-' && c != 0 && !taken.contains(&c) && c != d.sep && c != d.prefix && c != d.suffix
        && c.to_ascii_lowercase() != d.prefix.to_ascii_lowercase().max(1) && c.to_ascii_lowercase() != d.suffix.to_ascii_lowercase().max(1);
    let (point, exp) = if variant == 0 {
        let e = if ok(b'e', &[]) { b'e' } else if ok(b'p', &[]) && d.ebase() == 2 { b'p' } else { b'^' };
        (b'.', e)
    } else {
        let points = [b',', b';', b' ', b'/', b'.', b':'];
        let exps = [b'^', b'p', b'P', b'@', b'e', b'E', b'~', b'z', b'Z'];
        let mut pt = b'.';
        for _ in 0..20 {
            let c = *rng.pick(&points);
            if ok(c, &[]) {
                pt = c;
                break;
            }
        }
        let mut ex = b'^';
        for _ in 0..20 {
            let c = *rng.pick(&exps);
            if ok(c, &[pt]) {
                ex = c;
                break;
            }
        }
        (pt, ex)
    };
    let (nan, inf, infinity): (Option<Vec<u8>>, Option<Vec<u8>>, Option<Vec<u8>>) = match variant {
        0 => (Some(b"NaN".to_vec()), Some(b"inf".to_vec()), Some(b"infinity".to_vec())),
        1 => {
            // seeded letter strings; inf is a prefix of infinity half of the time
            let letters = b"abcdefghijklmnopqrstuvwxyzABCDEFGHIJKLMNOPQRSTUVWXYZ";
            fn mk(rng: &mut Rng, first: &[u8], len: usize, letters: &[u8]) -> Vec<u8> {
                let mut s = vec![*rng.pick(first)];
                for _ in 1..len {
                    s.push(*rng.pick(letters));
                }
                s
            }
            let l1 = 1 + rng.below(6) as usize;
            let nan = mk(rng, b"nN", l1, letters);
            let l2 = 1 + rng.below(5) as usize;
            let inf = mk(rng, b"iI", l2, letters);
            let mut infinity = if rng.chance(1, 2) { inf.clone() } else { mk(rng, b"iI", inf.len(), letters) };
            for _ in 0..rng.below(6) {
                infinity.push(*rng.pick(letters));
            }
            (Some(nan), Some(inf), Some(infinity))
        },
        _ => (None, None, None),
    };
    let mut b = lexical_core::ParseFloatOptions::builder().decimal_point(point).exponent(exp);
    b = b.nan_string(nan.as_deref().map(leak)).inf_string(inf.as_deref().map(leak)).infinity_string(infinity.as_deref().map(leak));
    let lex = b.build().expect("valid parse options");
    let lossy = b.lossy(true).build().expect("valid parse options");
    let name = format!("point={:?} exp={:?} nan={:?} inf={:?} infinity={:?}", point as char, exp as char, nan.as_deref().map(show), inf.as_deref().map(show), infinity.as_deref().map(show));
    FOpts { p: POpts { point, exp, nan, inf, infinity }, lex, lossy, name }
}

fn same_float<T: LFloat>(a: T, b: T) -> bool {
    let k = T::KIND;
    (k.is_nan(a.bits64()) && k.is_nan(b.bits64())) || a.bits64() == b.bits64()
}

fn fmt_rf<T: LFloat>(r: &R<T>) -> String {
    show_r_float(r)
}

fn has_sep(d: &Desc, input: &[u8]) -> bool {
    d.sep != 0 && input.contains(&d.sep)
}

/// all oracles for one float input
fn judge_float<T: LFloat, const FMT: u128, const NOSEP: u128>(cx: &mut Cx, d: &Desc, fo: &FOpts, input: &[u8]) -> Option<T> {
    let k = T::KIND;
    cx.n += 1;
    let place = place_for(cx.n);
    guard::set_crumb(input);
    let ty = k.name();
    let rc = parse_complete_opt::<T, FMT>(&mut cx.arena, input, place, &fo.lex);
    let rp = parse_partial_opt::<T, FMT>(&mut cx.arena, input, place, &fo.lex);
    bump(cx, if k.mant_bits == 52 { "evals.f64" } else { "evals.f32" });
    // ---- C10
    for (entry, r) in [("complete", &rc), ("partial", &rp)] {
        match r {
            R::Panic(p) => viol(cx, "C10", "panic", d, &fo.name, ty, input, format!("{entry}: {p}")),
            R::Ok(_, n) if *n > input.len() => viol(cx, "C10", "count-beyond-input", d, &fo.name, ty, input, format!("{entry}: n={n}")),
            R::Err(e) if err_index(e) > input.len() as i64 => viol(cx, "C10", "index-beyond-input", d, &fo.name, ty, input, format!("{entry}: {e:?}")),
            _ => {},
        }
    }
    if matches!(rc, R::Panic(_)) || matches!(rp, R::Panic(_)) {
        return None;
    }
    // ---- C11
    // Inputs that begin like a configured special string whose first letter is a digit of the radix are read as a
    // number by one entry point and as the special value by another (known finding, see C08): keyed on their own class
    let amb = {
        let body: &[u8] = if matches!(input.first(), Some(b'+') | Some(b'-')) { &input[1..] } else { input };
        body.first().map_or(false, |&c| {
            digit_value(c) < d.radix as u32 && [&fo.p.nan, &fo.p.inf, &fo.p.infinity].into_iter().flatten().any(|s| s.first().map_or(false, |&f| f.to_ascii_lowercase() == c.to_ascii_lowercase()))
        })
    };
    let c11 = |base: &str| -> String {
        if amb {
            format!("{base}:special-string-letters-are-digits-of-the-radix")
        } else {
            base.to_string()
        }
    };
    match (&rc, &rp) {
        (R::Ok(v, _), R::Ok(w, n)) if *n == input.len() && same_float(*v, *w) => {},
        (R::Ok(..), _) => viol(cx, "C11", &c11("complete-ok-partial-differs"), d, &fo.name, ty, input, format!("complete={} partial={}", fmt_rf(&rc), fmt_rf(&rp))),
        (R::Err(_), R::Ok(_, n)) if *n == input.len() => {
            viol(cx, "C11", &c11("partial-full-complete-err"), d, &fo.name, ty, input, format!("complete={} partial={}", fmt_rf(&rc), fmt_rf(&rp)))
        },
        _ => {},
    }
    if let R::Ok(w, n) = &rp {
        if *n > 0 && *n < input.len() {
            let pre = parse_complete_opt::<T, FMT>(&mut cx.arena, &input[..*n], place, &fo.lex);
            let ok = matches!(&pre, R::Ok(v, _) if same_float(*v, *w));
            if !ok {
                viol(cx, "C11", &c11("prefix-not-complete"), d, &fo.name, ty, input, format!("partial={} complete(prefix)={}", fmt_rf(&rp), fmt_rf(&pre)));
            }
        }
    }
    // ---- C19 (lossy accepts/rejects identically)
    if cx.n % 3 == 0 {
        let lc = parse_complete_opt::<T, FMT>(&mut cx.arena, input, place, &fo.lossy);
        let lp = parse_partial_opt::<T, FMT>(&mut cx.arena, input, place, &fo.lossy);
        let same_shape = |a: &R<T>, b: &R<T>| match (a, b) {
            (R::Ok(_, n), R::Ok(_, m)) => n == m,
            (R::Err(e), R::Err(f)) => e == f,
            _ => false,
        };
        if !same_shape(&rc, &lc) || !same_shape(&rp, &lp) {
            viol(cx, "C19", "lossy-accept-reject-differs", d, &fo.name, ty, input, format!("exact: {} / {} lossy: {} / {}", fmt_rf(&rc), fmt_rf(&rp), fmt_rf(&lc), fmt_rf(&lp)));
        }
    }
    let sep_in = has_sep(d, input);
    // ---- C12 / C15: separator-free grammar
    if !sep_in {
        let rec = refgram::recognise_float(d, &fo.p, input);
        match (&rec, &rc) {
            (Rec::Unsure(_), _) => bump(cx, "c12.unsure"),
            (Rec::Number(parts), R::Ok(v, _)) => {
                let x = parts.exact(d.radix as u32, d.ebase(), d.eradix());
                let b = v.bits64();
                let sign = if parts.neg { k.sign_bit() } else { 0 };
                if k.is_nan(b) {
                    viol(cx, "C15", "numeric-input-gave-nan", d, &fo.name, ty, input, fmt_rf(&rc));
                } else if matches!(x, oracle::Exact::Zero) && (b & k.abs_mask()) == 0 && (b & k.sign_bit()) != sign {
                    // C15: the sign of a zero literal ('-0', '-0.0e5', '-0e-999') must survive parsing
                    viol(cx, "C15", "sign-of-zero-lost-on-parse", d, &fo.name, ty, input, fmt_rf(&rc));
                    viol(cx, "C12", "accepted-wrong-value", d, &fo.name, ty, input, format!("sign of zero: observed {}", fmt_rf(&rc)));
                } else if (b & k.sign_bit()) != sign || !oracle::is_correctly_rounded(k, &x, b & k.abs_mask()) {
                    let exp = oracle::round_nearest_even(k, &x) | sign;
                    viol(cx, "C12", "accepted-wrong-value", d, &fo.name, ty, input, format!("expected {exp:#x} observed {}", fmt_rf(&rc)));
                }
                bump(cx, "c12.accept");
            },
            (Rec::Number(_), R::Err(e)) => viol(cx, "C12", "rejected-grammatical", d, &fo.name, ty, input, format!("{e:?}")),
            (Rec::Special(neg, kind), R::Ok(v, _)) => {
                let b = v.bits64();
                let good = match kind {
                    SpecialKind::Nan => k.is_nan(b),
                    SpecialKind::Inf => (b & k.abs_mask()) == k.inf_bits() && ((b & k.sign_bit()) != 0) == *neg,
                };
                if !good {
                    viol(cx, "C15", "special-wrong-value", d, &fo.name, ty, input, fmt_rf(&rc));
                }
                bump(cx, "c15.special-accept");
            },
            (Rec::Special(..), R::Err(e)) => viol(cx, "C15", "special-rejected", d, &fo.name, ty, input, format!("{e:?}")),
            (Rec::Reject(why), R::Ok(v, _)) => {
                let b = v.bits64();
                let special = k.is_nan(b) || (b & k.abs_mask()) == k.inf_bits();
                // an infinity from a numeric-looking input is overflow, not a special
                let numeric_looking = input.iter().any(|&c| digit_value(c) < d.radix as u32);
                if special && !numeric_looking {
                    viol(cx, "C15", "special-accepted-ungrammatical", d, &fo.name, ty, input, format!("{why}: {}", fmt_rf(&rc)));
                } else {
                    viol(cx, "C12", "accepted-ungrammatical", d, &fo.name, ty, input, format!("{why}: {}", fmt_rf(&rc)));
                }
            },
            (Rec::Reject(_), R::Err(_)) => bump(cx, "c12.reject"),
            _ => {},
        }
        // ---- C13 (4): separator-free input behaves identically in the separator-free counterpart format
        if d.sep != 0 && d.any_sep_flags() {
            let nc = parse_complete_opt::<T, NOSEP>(&mut cx.arena, input, place, &fo.lex);
            let np = parse_partial_opt::<T, NOSEP>(&mut cx.arena, input, place, &fo.lex);
            let same = |a: &R<T>, b: &R<T>| match (a, b) {
                (R::Ok(v, n), R::Ok(w, m)) => n == m && same_float(*v, *w),
                (R::Err(e), R::Err(f)) => e == f,
                _ => false,
            };
            if !same(&rc, &nc) || !same(&rp, &np) {
                viol(cx, "C13", "sepfree-input-differs-from-counterpart", d, &fo.name, ty, input, format!("with: {} / {} without: {} / {}", fmt_rf(&rc), fmt_rf(&rp), fmt_rf(&nc), fmt_rf(&np)));
            }
            bump(cx, "c13.counterpart");
        }
    } else {
        // ---- C13 (1),(2) + C15 separators in specials
        if let R::Ok(v, _) = &rc {
            let b = v.bits64();
            // does the input spell a special string once the separators are ignored?
            let body0: &[u8] = if matches!(input.first(), Some(b'+') | Some(b'-')) { &input[1..] } else { input };
            let spelled = refgram::special_after_sign(&Desc { flags: (d.flags | SSEP) & !NSP, ..*d }, &fo.p, body0).is_some();
            let special = k.is_nan(b) || ((b & k.abs_mask()) == k.inf_bits() && spelled);
            if special {
                if !d.has(SSEP) {
                    let body: &[u8] = if matches!(input.first(), Some(b'+') | Some(b'-')) { &input[1..] } else { input };
                    let lead = body.iter().take_while(|&&c| c == d.sep).count();
                    let only_leading = lead > 0 && !body[lead..].contains(&d.sep);
                    let class = if only_leading { "separator-in-special-without-flag:leading-separators-skipped-before-special" } else { "separator-in-special-without-flag" };
                    viol(cx, "C15", class, d, &fo.name, ty, input, fmt_rf(&rc));
                }
            } else {
                let stripped: Vec<u8> = input.iter().copied().filter(|&c| c != d.sep).collect();
                let rs = parse_complete_opt::<T, FMT>(&mut cx.arena, &stripped, place, &fo.lex);
                if !matches!(&rs, R::Ok(w, _) if same_float(*v, *w)) {
                    viol(cx, "C13", "stripped-differs", d, &fo.name, ty, input, format!("with separators: {} stripped: {}", fmt_rf(&rc), fmt_rf(&rs)));
                }
                for run in refgram::classify_separators(d, &fo.p, input, true) {
                    if !refgram::run_enabled(d, &run) {
                        viol(cx, "C13", "separator-at-disabled-position", d, &fo.name, ty, input, format!("{run:?} accepted as {}", fmt_rf(&rc)));
                        break;
                    }
                }
                bump(cx, "c13.accepted-with-separators");
            }
        }
        if d.has(SSEP) {
            // sign + special string with separators sprinkled in
            let (neg, rest) = match input.first() {
                Some(b'+') if !d.has(NPMS) => (false, &input[1..]),
                Some(b'-') => (true, &input[1..]),
                _ if !d.has(RMS) => (false, input),
                _ => (false, &b""[..]),
            };
            if !rest.is_empty() && rest.iter().all(|c| c.is_ascii_alphabetic() || *c == d.sep) && rest.iter().any(|c| c.is_ascii_alphabetic()) {
                if let Some(kind) = refgram::special_after_sign(d, &fo.p, rest) {
                    // only judged when the letters cannot be read as digits of the radix
                    if rest.iter().all(|&c| c == d.sep || digit_value(c) >= d.radix as u32) {
                        let good = match (&rc, kind) {
                            (R::Ok(v, _), SpecialKind::Nan) => k.is_nan(v.bits64()),
                            (R::Ok(v, _), SpecialKind::Inf) => (v.bits64() & k.abs_mask()) == k.inf_bits() && ((v.bits64() & k.sign_bit()) != 0) == neg,
                            _ => false,
                        };
                        if !good {
                            viol(cx, "C15", "special-with-separators-rejected", d, &fo.name, ty, input, fmt_rf(&rc));
                        }
                    }
                }
            }
        }
    }
    cx.distinct += 1;
    match rc {
        R::Ok(v, _) => Some(v),
        _ => None,
    }
}

fn fmt_ri<T: LInt>(r: &R<T>) -> String {
    match r {
        R::Ok(v, n) => format!("Ok({v}, n={n})"),
        R::Err(e) => format!("Err({e:?})"),
        R::Panic(p) => format!("Panic({p})"),
    }
}

fn judge_int<T: LInt, const FMT: u128, const NOSEP: u128>(cx: &mut Cx, d: &Desc, io: &lexical_core::ParseIntegerOptions, input: &[u8]) -> Option<T> {
    cx.n += 1;
    let place = place_for(cx.n);
    guard::set_crumb(input);
    let ty = T::NAME;
    let rc = parse_complete_opt::<T, FMT>(&mut cx.arena, input, place, io);
    let rp = parse_partial_opt::<T, FMT>(&mut cx.arena, input, place, io);
    bump(cx, "evals.int");
    for (entry, r) in [("complete", &rc), ("partial", &rp)] {
        match r {
            R::Panic(p) => viol(cx, "C10", "panic", d, "", ty, input, format!("{entry}: {p}")),
            R::Ok(_, n) if *n > input.len() => viol(cx, "C10", "count-beyond-input", d, "", ty, input, format!("{entry}: n={n}")),
            R::Err(e) if err_index(e) > input.len() as i64 => viol(cx, "C10", "index-beyond-input", d, "", ty, input, format!("{entry}: {e:?}")),
            _ => {},
        }
    }
    // the multi-digit (SWAR) code paths are only taken with no_multi_digit(false): totality and agreement there too
    {
        let io2 = lexical_core::ParseIntegerOptions::builder().no_multi_digit(!io.get_no_multi_digit()).build_unchecked();
        let mc = parse_complete_opt::<T, FMT>(&mut cx.arena, input, place, &io2);
        let mp = parse_partial_opt::<T, FMT>(&mut cx.arena, input, place, &io2);
        for (entry, r) in [("complete/multi-digit", &mc), ("partial/multi-digit", &mp)] {
            match r {
                R::Panic(p) => viol(cx, "C10", "panic", d, "", ty, input, format!("{entry}: {p}")),
                R::Ok(_, n) if *n > input.len() => viol(cx, "C10", "count-beyond-input", d, "", ty, input, format!("{entry}: n={n}")),
                R::Err(e) if err_index(e) > input.len() as i64 => viol(cx, "C10", "index-beyond-input", d, "", ty, input, format!("{entry}: {e:?}")),
                _ => {},
            }
        }
        if mc != rc || mp != rp {
            // C04: the option only selects an optimisation, results must not depend on it
            viol(cx, "C04", "no_multi_digit-changes-result", d, "", ty, input, format!("digit-by-digit: {} / {}  multi-digit: {} / {}", fmt_ri(&rc), fmt_ri(&rp), fmt_ri(&mc), fmt_ri(&mp)));
        }
        bump(cx, "evals.int-multi-digit");
    }
    if matches!(rc, R::Panic(_)) || matches!(rp, R::Panic(_)) {
        return None;
    }
    match (&rc, &rp) {
        (R::Ok(v, _), R::Ok(w, n)) if *n == input.len() && v == w => {},
        (R::Ok(..), _) => viol(cx, "C11", "complete-ok-partial-differs", d, "", ty, input, format!("complete={} partial={}", fmt_ri(&rc), fmt_ri(&rp))),
        (R::Err(_), R::Ok(_, n)) if *n == input.len() => viol(cx, "C11", "partial-full-complete-err", d, "", ty, input, format!("complete={} partial={}", fmt_ri(&rc), fmt_ri(&rp))),
        _ => {},
    }
    if let R::Ok(w, n) = &rp {
        if *n > 0 && *n < input.len() {
            let pre = parse_complete_opt::<T, FMT>(&mut cx.arena, &input[..*n], place, io);
            if !matches!(&pre, R::Ok(v, _) if v == w) {
                // the consumed prefix holds no digit at all: only a sign and/or the base prefix
                let body: &[u8] = if input[0] == b'+' || input[0] == b'-' { &input[1..*n] } else { &input[..*n] };
                let just_prefix = d.prefix != 0 && body.len() == 2 && body[0] == b'0' && body[1].to_ascii_lowercase() == d.prefix.to_ascii_lowercase();
                let sign_only = w.split().1 == 0 && body.len() < *n && (body.is_empty() || just_prefix) || (w.split().1 == 0 && just_prefix);
                // the recorded findings of this class all concern a consumed prefix without any non-zero digit (value 0);
                // a non-zero value whose consumed prefix the complete parser rejects is a different matter
                let class = if sign_only {
                    "prefix-not-complete:partial-consumed-only-sign-or-base-prefix"
                } else if w.split().1 == 0 {
                    "prefix-not-complete:zero-value"
                } else {
                    "prefix-not-complete"
                };
                viol(cx, "C11", class, d, "", ty, input, format!("partial={} complete(prefix)={}", fmt_ri(&rp), fmt_ri(&pre)));
            }
        }
    }
    let sep_in = has_sep(d, input);
    if !sep_in {
        match (refgram::recognise_int(d, T::SIGNED, input), &rc) {
            (IRec::Unsure(_), _) => bump(cx, "c12.unsure"),
            (IRec::Number(neg, digits), r) => {
                let mag = Big::from_digits(d.radix as u32, &digits);
                let fits = mag.to_u128().map(|m| m <= T::max_mag(neg)).unwrap_or(false);
                match (fits, r) {
                    (true, R::Ok(v, _)) => {
                        if T::join(neg, mag.to_u128().unwrap()) != Some(*v) {
                            viol(cx, "C12", "accepted-wrong-value", d, "", ty, input, fmt_ri(&rc));
                        }
                        bump(cx, "c12.accept");
                    },
                    (true, R::Err(e)) => viol(cx, "C12", "rejected-grammatical", d, "", ty, input, format!("{e:?}")),
                    (false, R::Ok(..)) => viol(cx, "C12", "accepted-out-of-range", d, "", ty, input, fmt_ri(&rc)),
                    _ => {},
                }
            },
            (IRec::Reject(why), R::Ok(..)) => viol(cx, "C12", "accepted-ungrammatical", d, "", ty, input, format!("{why}: {}", fmt_ri(&rc))),
            _ => bump(cx, "c12.reject"),
        }
        // any separator flag, also fraction- or exponent-only ones: the integer parsers go through the same iterators
        if d.sep != 0 && d.any_sep_flags() {
            let nc = parse_complete_opt::<T, NOSEP>(&mut cx.arena, input, place, io);
            let np = parse_partial_opt::<T, NOSEP>(&mut cx.arena, input, place, io);
            if rc != nc || rp != np {
                // partial parse that found no digit: Err(Empty(i)) in a separator format, Ok((0, i)) otherwise
                let empty_vs_zero = rc == nc
                    && match (&rp, &np) {
                        (R::Err(e), R::Ok(v, n)) => err_kind(e) == "Empty" && err_index(e) == *n as i64 && v.split().1 == 0,
                        _ => false,
                    };
                let class = if empty_vs_zero { "sepfree-input-differs-from-counterpart:partial-without-digits-empty-vs-zero" } else { "sepfree-input-differs-from-counterpart" };
                viol(cx, "C13", class, d, "", ty, input, format!("with: {} / {} without: {} / {}", fmt_ri(&rc), fmt_ri(&rp), fmt_ri(&nc), fmt_ri(&np)));
            }
        }
    } else if let R::Ok(v, _) = &rc {
        let stripped: Vec<u8> = input.iter().copied().filter(|&c| c != d.sep).collect();
        let rs = parse_complete_opt::<T, FMT>(&mut cx.arena, &stripped, place, io);
        if !matches!(&rs, R::Ok(w, _) if v == w) {
            viol(cx, "C13", "stripped-differs", d, "", ty, input, format!("with separators: {} stripped: {}", fmt_ri(&rc), fmt_ri(&rs)));
        }
        for run in refgram::classify_separators(d, &POpts::standard(), input, false) {
            if !refgram::run_enabled(d, &run) {
                viol(cx, "C13", "separator-at-disabled-position", d, "", ty, input, format!("{run:?} accepted as {}", fmt_ri(&rc)));
                break;
            }
        }
        bump(cx, "c13.accepted-with-separators");
    }
    cx.distinct += 1;
    match rc {
        R::Ok(v, _) => Some(v),
        _ => None,
    }
}

// ---------------------------------------------------------------------------------------------
// workloads

fn alphabet(d: &Desc, p: &POpts) -> Vec<u8> {
    let hi = digit_char(d.radix - 1);
    let mut a = vec![b'+', b'-', b'0', b'1', hi, hi.to_ascii_lowercase(), p.point, p.exp.to_ascii_lowercase(), p.exp.to_ascii_uppercase()];
    if d.sep != 0 {
        a.push(d.sep);
    }
    for c in [d.prefix, d.suffix] {
        if c != 0 {
            a.push(c.to_ascii_lowercase());
            a.push(c.to_ascii_uppercase());
        }
    }
    // a junk byte that is neither digit nor punctuation
    a.push(if (d.radix as u32) < 36 { b'z' } else { b'@' });
    a.sort();
    a.dedup();
    a
}

fn all_strings(alpha: &[u8], maxlen: usize, out: &mut Vec<Vec<u8>>) {
    let mut frontier: Vec<Vec<u8>> = vec![vec![]];
    out.push(vec![]);
    for _ in 0..maxlen {
        let mut next = Vec::with_capacity(frontier.len() * alpha.len());
        for s in &frontier {
            for &a in alpha {
                let mut t = s.clone();
                t.push(a);
                next.push(t);
            }
        }
        out.extend(next.iter().cloned());
        frontier = next;
    }
}

fn rand_digits(rng: &mut Rng, radix: u32, n: usize, out: &mut Vec<u8>) {
    for _ in 0..n {
        let dg = rng.below(radix as u64) as u8;
        let c = digit_char(dg);
        out.push(if rng.chance(1, 3) { c.to_ascii_lowercase() } else { c });
    }
}

/// digits with separators sprinkled in (leading / internal / trailing / consecutive, any of them at random)
fn digits_with_seps(rng: &mut Rng, d: &Desc, radix: u32, out: &mut Vec<u8>) {
    let n = match rng.below(12) {
        0 => 0,
        1..=5 => 1 + rng.below(3) as usize,
        6..=8 => 4 + rng.below(6) as usize,
        9 => 7 + rng.below(3) as usize,
        10 => 16 + rng.below(5) as usize,
        _ => 20 + rng.below(30) as usize,
    };
    let use_sep = d.sep != 0 && rng.chance(1, 2);
    let mut lead = 0;
    let mut trail = 0;
    if use_sep {
        if rng.chance(1, 4) {
            lead = 1 + rng.below(2) as usize;
        }
        if rng.chance(1, 4) {
            trail = 1 + rng.below(2) as usize;
        }
    }
    out.extend(std::iter::repeat(d.sep).take(lead));
    for i in 0..n {
        if i == 0 && rng.chance(1, 4) {
            out.push(b'0');
        } else {
            rand_digits(rng, radix, 1, out);
        }
        if use_sep && i + 1 < n && rng.chance(1, 5) {
            out.push(d.sep);
            if rng.chance(1, 5) {
                out.push(d.sep);
            }
        }
    }
    out.extend(std::iter::repeat(d.sep).take(trail));
}

fn flip_case(rng: &mut Rng, s: &[u8]) -> Vec<u8> {
    s.iter().map(|&c| if rng.chance(1, 3) { c ^ 0x20 } else { c }).collect()
}

/// shape-directed random float literal (valid and nearly-valid)
fn token_float(rng: &mut Rng, d: &Desc, p: &POpts) -> Vec<u8> {
    let mut s = Vec::new();
    match rng.below(8) {
        0 => s.push(b'+'),
        1 | 2 => s.push(b'-'),
        _ => {},
    }
    // specials
    if rng.chance(1, 8) {
        let which = [&p.nan, &p.inf, &p.infinity];
        let pick = which[rng.below(3) as usize].clone().unwrap_or_else(|| b"nan".to_vec());
        let mut w = match rng.below(6) {
            0 => pick.clone(),
            1 => flip_case(rng, &pick),
            2 => pick[..rng.below(pick.len() as u64 + 1) as usize].to_vec(),
            3 => {
                let mut t = pick.clone();
                t.push(*rng.pick(b"yY0@`[{\x00 e."));
                t
            },
            4 => pick.to_ascii_lowercase(),
            _ => pick.to_ascii_uppercase(),
        };
        if d.sep != 0 && rng.chance(1, 3) && !w.is_empty() {
            let at = rng.below(w.len() as u64 + 1) as usize;
            w.insert(at, d.sep);
        }
        s.extend(w);
        return s;
    }
    if d.prefix != 0 && rng.chance(1, 3) {
        match rng.below(5) {
            0 => s.push(d.prefix),
            1 => {
                s.push(b'0');
                s.push(d.prefix ^ 0x20);
            },
            _ => {
                s.push(b'0');
                s.push(d.prefix);
            },
        }
    }
    digits_with_seps(rng, d, d.radix as u32, &mut s);
    if rng.chance(3, 5) {
        s.push(p.point);
        digits_with_seps(rng, d, d.radix as u32, &mut s);
    }
    if rng.chance(2, 5) {
        s.push(if rng.chance(1, 3) { p.exp ^ 0x20 } else { p.exp });
        match rng.below(4) {
            0 => s.push(b'+'),
            1 => s.push(b'-'),
            _ => {},
        }
        let mut e = Vec::new();
        digits_with_seps(rng, d, d.eradix(), &mut e);
        e.truncate(3 + rng.below(3) as usize);
        s.extend(e);
    }
    if d.suffix != 0 && rng.chance(1, 3) {
        s.push(if rng.chance(1, 4) { d.suffix ^ 0x20 } else { d.suffix });
    }
    if rng.chance(1, 10) {
        s.push(*rng.pick(b"z@. _-+\x00\x80\xff"));
    }
    // light mutation
    if rng.chance(1, 12) && !s.is_empty() {
        let at = rng.below(s.len() as u64) as usize;
        match rng.below(3) {
            0 => {
                s.remove(at);
            },
            1 => {
                let c = s[at];
                s.insert(at, c);
            },
            _ => s[at] = *rng.pick(b"+-._e0z\x80"),
        }
    }
    s
}

fn token_int(rng: &mut Rng, d: &Desc) -> Vec<u8> {
    let mut s = Vec::new();
    match rng.below(8) {
        0 | 1 => s.push(b'+'),
        2 | 3 => s.push(b'-'),
        _ => {},
    }
    if d.prefix != 0 && rng.chance(1, 3) {
        s.push(b'0');
        s.push(if rng.chance(1, 4) { d.prefix ^ 0x20 } else { d.prefix });
    }
    digits_with_seps(rng, d, d.radix as u32, &mut s);
    if d.suffix != 0 && rng.chance(1, 3) {
        s.push(if rng.chance(1, 4) { d.suffix ^ 0x20 } else { d.suffix });
    }
    if rng.chance(1, 10) {
        s.push(*rng.pick(b"z@. _-+\x00\x80\xff"));
    }
    s
}

/// C13 (3): insert separators at enabled positions of an accepted separator-free literal
fn insertions(rng: &mut Rng, d: &Desc, p: &POpts, input: &[u8], is_float: bool, out: &mut Vec<Vec<u8>>) {
    // component spans
    let n = input.len();
    let mut i = 0;
    if i < n && (input[i] == b'+' || input[i] == b'-') {
        i += 1;
    }
    let mut comp = 0u32;
    loop {
        let radix = if comp == 2 { d.eradix() } else { d.radix as u32 };
        let start = i;
        while i < n && digit_value(input[i]) < radix {
            i += 1;
        }
        let end = i;
        if end > start {
            let (int, lead, trail, cons) = d.sep_flags(comp);
            let mut put = |at: usize, count: usize| {
                let mut t = input[..at].to_vec();
                t.extend(std::iter::repeat(d.sep).take(count));
                t.extend_from_slice(&input[at..]);
                out.push(t);
            };
            if lead {
                put(start, 1);
                if cons {
                    put(start, 2);
                }
            }
            if trail {
                put(end, 1);
                if cons {
                    put(end, 3);
                }
            }
            if int && end - start >= 2 {
                let positions: Vec<usize> = if end - start <= 12 { (start + 1..end).collect() } else { (0..10).map(|_| start + 1 + rng.below((end - start - 1) as u64) as usize).collect() };
                for at in positions {
                    put(at, 1);
                    if cons && rng.chance(1, 3) {
                        put(at, 2);
                    }
                }
            }
        }
        if !is_float {
            break;
        }
        if comp == 0 && i < n && input[i] == p.point {
            i += 1;
            comp = 1;
            continue;
        }
        if comp <= 1 && i < n && input[i].to_ascii_lowercase() == p.exp.to_ascii_lowercase() {
            i += 1;
            if i < n && (input[i] == b'+' || input[i] == b'-') {
                i += 1;
            }
            comp = 2;
            continue;
        }
        break;
    }
}

/// long digit components (7..800 digits): drives the SWAR paths, the many-digit re-parse and the big-integer paths
fn long_floats(rng: &mut Rng, d: &Desc, p: &POpts, thorough: bool, out: &mut Vec<Vec<u8>>) {
    let lens: &[usize] = if thorough { &[7, 8, 9, 15, 16, 17, 19, 20, 21, 40, 100, 800] } else { &[7, 8, 9, 16, 19, 20, 40, 800] };
    for &li in lens {
        for &lf in &[0usize, 1, 8, 9, 20, 40] {
            let mut s = Vec::new();
            if rng.chance(1, 4) {
                s.push(b'-');
            }
            rand_digits(rng, d.radix as u32, li, &mut s);
            if s.last() == Some(&b'0') || true {
                // make the leading digit non-zero so that leading-zero flags do not reject
                let first = s.iter().position(|c| c.is_ascii_alphanumeric()).unwrap();
                if s[first] == b'0' {
                    s[first] = b'1';
                }
            }
            if lf > 0 {
                s.push(p.point);
                rand_digits(rng, d.radix as u32, lf, &mut s);
            }
            if rng.chance(1, 2) {
                s.push(p.exp);
                if rng.chance(1, 2) {
                    s.push(b'-');
                } else if d.has(RES) {
                    s.push(b'+');
                }
                let ne = 1 + rng.below(2) as usize;
                rand_digits(rng, d.eradix().min(10), ne, &mut s);
            } else if d.has(REN) {
                s.push(p.exp);
                s.push(b'-');
                s.push(b'1');
            }
            out.push(s);
        }
    }
}

/// arbitrary bytes, spliced non-ASCII, very long components: for the totality / agreement oracles
fn hostile(rng: &mut Rng, d: &Desc, p: &POpts, n: usize, long: bool, out: &mut Vec<Vec<u8>>) {
    for _ in 0..n {
        let len = rng.below(25) as usize;
        let mode = rng.below(3);
        let t: Vec<u8> = (0..len)
            .map(|_| match (mode, rng.below(8)) {
                (0, _) | (_, 0) => rng.next_u64() as u8,
                (_, 1) => *rng.pick(&[b'+', b'-', p.point, p.exp, if d.sep != 0 { d.sep } else { b'_' }, if d.prefix != 0 { d.prefix } else { b'x' }]),
                _ => digit_char(rng.below(d.radix as u64) as u8),
            })
            .collect();
        out.push(t);
    }
    if long {
        for &l in &[700usize, 4096, 16384] {
            let mut digs = Vec::new();
            rand_digits(rng, d.radix as u32, l, &mut digs);
            digs[0] = b'1';
            out.push(digs.clone());
            let mut t = digs.clone();
            t.insert(l / 3, p.point);
            out.push(t);
            let mut t = vec![b'1', p.exp];
            t.extend(digs.iter().map(|&c| if digit_value(c) < d.eradix() { c } else { b'1' }));
            out.push(t);
            if d.sep != 0 {
                let mut t = Vec::new();
                for (i, &c) in digs.iter().enumerate() {
                    t.push(c);
                    if i % 3 == 2 && i + 1 < digs.len() {
                        t.push(d.sep);
                    }
                }
                out.push(t.clone());
                t.insert(l / 2, p.point);
                out.push(t);
                out.push(vec![d.sep; l]);
            }
            out.push(vec![b'0'; l]);
        }
    }
}

fn run_format<const FMT: u128, const NOSEP: u128>(cx: &mut Cx, d: &Desc, idx: usize, seed: u64, only: Option<(&str, &[u8], u32)>) {
    let mut rng = Rng::stream(seed, 9000 + idx as u64 * 7 + SET as u64);
    let io = lexical_core::ParseIntegerOptions::new();
    cx.idx = idx;
    let nvariants = if SET == SET_INVALID { 1 } else { 3 };
    if let Some((ty, input, variant)) = only {
        cx.variant = variant;
        let fo = mk_opts(d, variant, &mut Rng::stream(seed, 9500 + idx as u64 * 3 + variant as u64));
        match ty {
            "f64" => {
                judge_float::<f64, FMT, NOSEP>(cx, d, &fo, input);
            },
            "f32" => {
                judge_float::<f32, FMT, NOSEP>(cx, d, &fo, input);
            },
            "i64" => {
                judge_int::<i64, FMT, NOSEP>(cx, d, &io, input);
            },
            _ => {
                judge_int::<u8, FMT, NOSEP>(cx, d, &io, input);
            },
        }
        return;
    }
    let extra_types = idx % 4 == 0;
    let ntok = if cx.small { 48 } else if cx.thorough { 120_000 } else { 12_000 };
    for variant in 0..nvariants {
        cx.variant = variant;
        let fo = mk_opts(d, variant, &mut Rng::stream(seed, 9500 + idx as u64 * 3 + variant as u64));
        let mut inputs: Vec<Vec<u8>> = Vec::new();
        let alpha = alphabet(d, &fo.p);
        let maxlen = if cx.small { if variant == 0 { 2 } else { 1 } } else if variant == 0 { if cx.thorough { 5 } else { 4 } } else { 3 };
        all_strings(&alpha, maxlen, &mut inputs);
        for _ in 0..ntok {
            inputs.push(token_float(&mut rng, d, &fo.p));
        }
        // zero literals whose exponent is far outside the fast-path window, both signs
        for z in [&b"0"[..], b"0.0", b"00.000", b".0"] {
            for e in [&b""[..], b"5", b"-5", b"-30", b"40", b"-999", b"999"] {
                for sign in [&b""[..], b"-", b"+"] {
                    let mut t = sign.to_vec();
                    t.extend_from_slice(z);
                    if !e.is_empty() {
                        t.push(fo.p.exp);
                        t.extend(e.iter().map(|&c| if c == b'9' && d.eradix() < 10 { b'1' } else if c.is_ascii_digit() && (c - b'0') as u32 >= d.eradix() { b'1' } else { c }));
                    }
                    if z.contains(&b'.') && fo.p.point != b'.' {
                        for c in t.iter_mut() {
                            if *c == b'.' {
                                *c = fo.p.point;
                            }
                        }
                    }
                    inputs.push(t);
                }
            }
        }
        long_floats(&mut rng, d, &fo.p, cx.thorough, &mut inputs);
        if cx.small {
            // keep one literal per length class (7..40 digits reach the SWAR, many-digit and big-integer paths)
            let keep: Vec<Vec<u8>> = inputs.iter().rev().take(48).step_by(5).cloned().collect();
            let n = inputs.len() - 48;
            inputs.truncate(n);
            inputs.extend(keep.into_iter().filter(|s| s.len() < 120));
        }
        hostile(&mut rng, d, &fo.p, if cx.small { 16 } else { ntok / 8 }, variant == 0 && !cx.small, &mut inputs);
        // special strings neighbourhood (exhaustive single-case-flips, prefixes, extensions)
        for sp in [&fo.p.nan, &fo.p.inf, &fo.p.infinity].into_iter().flatten() {
            for sign in [&b""[..], b"+", b"-"] {
                let mut base = sign.to_vec();
                base.extend_from_slice(sp);
                inputs.push(base.clone());
                for cut in 0..sp.len() {
                    inputs.push(base[..sign.len() + cut].to_vec());
                }
                for k in 0..sp.len() {
                    let mut t = base.clone();
                    t[sign.len() + k] ^= 0x20;
                    inputs.push(t);
                }
                for ext in b"aZ0@`[{\x00._e".iter() {
                    let mut t = base.clone();
                    t.push(*ext);
                    inputs.push(t);
                }
                if d.sep != 0 {
                    for k in 0..=sp.len() {
                        let mut t = base.clone();
                        t.insert(sign.len() + k, d.sep);
                        inputs.push(t);
                    }
                }
            }
        }
        let mut accepted_sepfree: Vec<(Vec<u8>, u64)> = Vec::new();
        for inp in &inputs {
            let v = judge_float::<f64, FMT, NOSEP>(cx, d, &fo, inp);
            if extra_types {
                judge_float::<f32, FMT, NOSEP>(cx, d, &fo, inp);
            }
            if let Some(v) = v {
                if d.sep != 0 && d.any_sep_flags() && !has_sep(d, inp) && !v.is_nan() && inp.iter().any(|c| c.is_ascii_alphanumeric()) && accepted_sepfree.len() < 4000 {
                    // skip literals with prefix/suffix letters (their interplay with separators is not documented)
                    let plain = !inp.iter().any(|&c| (d.prefix != 0 && c.to_ascii_lowercase() == d.prefix.to_ascii_lowercase()) || (d.suffix != 0 && c.to_ascii_lowercase() == d.suffix.to_ascii_lowercase()));
                    let finite_literal = !(v.is_infinite() && !inp.iter().any(|&c| digit_value(c) < d.radix as u32));
                    if plain && finite_literal && (inp.len() > 3 || rng.chance(1, 8)) {
                        accepted_sepfree.push((inp.clone(), v.to_bits()));
                    }
                }
            }
        }
        // C13 (3): insertion at enabled positions keeps acceptance and value
        for (inp, bits) in &accepted_sepfree {
            let mut vars = Vec::new();
            insertions(&mut rng, d, &fo.p, inp, true, &mut vars);
            for t in vars {
                cx.n += 1;
                let place = place_for(cx.n);
                let rc = parse_complete_opt::<f64, FMT>(&mut cx.arena, &t, place, &fo.lex);
                let rp = parse_partial_opt::<f64, FMT>(&mut cx.arena, &t, place, &fo.lex);
                let okc = matches!(&rc, R::Ok(v, _) if v.to_bits() == *bits);
                let okp = matches!(&rp, R::Ok(v, n) if v.to_bits() == *bits && *n == t.len());
                if !okc || !okp {
                    viol(cx, "C13", "insertion-at-enabled-position-changes-result", d, &fo.name, "f64", &t, format!("from {} (bits {bits:#x}): complete={} partial={}", show(inp), fmt_rf(&rc), fmt_rf(&rp)));
                }
                bump(cx, "c13.insertions");
            }
        }
        if cx.n % 5 == 0 {
            let k = rng.below(inputs.len() as u64) as usize;
            cx.rep.sample(format!("set{} #{} {} [{}] {}", SET, idx, d.name(), fo.name, show(&inputs[k][..inputs[k].len().min(80)])));
        }
    }
    // integers
    let mut inputs: Vec<Vec<u8>> = Vec::new();
    let p0 = POpts::standard();
    let mut alpha = alphabet(d, &p0);
    alpha.retain(|&c| c != b'.' && c != b'e' && c != b'E');
    all_strings(&alpha, if cx.small { 2 } else if cx.thorough { 5 } else { 4 }, &mut inputs);
    for _ in 0..ntok / 2 {
        inputs.push(token_int(&mut rng, d));
    }
    // sign + k digits for every k around the 4- and 8-byte SWAR block sizes (input length vs remaining length)
    for k in [3usize, 4, 5, 7, 8, 9, 11, 12, 15, 16, 17, 19, 20] {
        for sign in [&b""[..], b"-", b"+"] {
            let mut t = sign.to_vec();
            rand_digits(&mut rng, (d.radix as u32).min(10), k, &mut t);
            inputs.push(t);
        }
    }
    let mut accepted: Vec<(Vec<u8>, i64)> = Vec::new();
    for inp in &inputs {
        let v = judge_int::<i64, FMT, NOSEP>(cx, d, &io, inp);
        if extra_types {
            judge_int::<u8, FMT, NOSEP>(cx, d, &io, inp);
        }
        if let Some(v) = v {
            if d.sep != 0 && d.flags & (0xf << 20) != 0 && !has_sep(d, inp) && accepted.len() < 2000 && (inp.len() > 2 || rng.chance(1, 6)) {
                let plain = !inp.iter().any(|&c| (d.prefix != 0 && c.to_ascii_lowercase() == d.prefix.to_ascii_lowercase()) || (d.suffix != 0 && c.to_ascii_lowercase() == d.suffix.to_ascii_lowercase()));
                if plain {
                    accepted.push((inp.clone(), v));
                }
            }
        }
    }
    for (inp, val) in &accepted {
        let mut vars = Vec::new();
        insertions(&mut rng, d, &p0, inp, false, &mut vars);
        for t in vars {
            cx.n += 1;
            let place = place_for(cx.n);
            let rc = parse_complete_opt::<i64, FMT>(&mut cx.arena, &t, place, &io);
            let rp = parse_partial_opt::<i64, FMT>(&mut cx.arena, &t, place, &io);
            if !matches!(&rc, R::Ok(v, _) if v == val) || !matches!(&rp, R::Ok(v, n) if v == val && *n == t.len()) {
                viol(cx, "C13", "insertion-at-enabled-position-changes-result", d, "", "i64", &t, format!("from {} ({val}): complete={} partial={}", show(inp), fmt_ri(&rc), fmt_ri(&rp)));
            }
            bump(cx, "c13.insertions");
        }
    }
}

/// invalid formats: every entry point must return a configuration error
fn run_invalid<const FMT: u128>(cx: &mut Cx, d: &Desc, idx: usize, seed: u64) {
    let mut rng = Rng::stream(seed, 9900 + idx as u64);
    let fo = mk_opts(&Desc::STANDARD, 0, &mut rng);
    let io = lexical_core::ParseIntegerOptions::new();
    let reason = refgram::format_validity(d);
    if !matches!(reason, refgram::Validity::Invalid(_)) {
        bump(cx, "c18.not-invalid-in-this-configuration");
        return;
    }
    let mut inputs: Vec<Vec<u8>> = vec![b"".to_vec(), b"1".to_vec(), b"0".to_vec(), b"-1.5e3".to_vec(), b"+1".to_vec(), b"nan".to_vec(), b"inf".to_vec(), b"1_000".to_vec(), b"0x1".to_vec(), b"z".to_vec()];
    for _ in 0..300 {
        inputs.push(token_float(&mut rng, &Desc::STANDARD, &fo.p));
    }
    let is_config = |e: &lexical_core::Error| e.index().is_none();
    for inp in &inputs {
        cx.n += 1;
        let place = place_for(cx.n);
        let rs: Vec<(&str, Result<String, bool>)> = vec![
            ("f64 complete", match parse_complete_opt::<f64, FMT>(&mut cx.arena, inp, place, &fo.lex) { R::Err(e) => Ok(format!("{e:?}")).and_then(|s| if is_config(&e) { Ok(s) } else { Err(false) }), _ => Err(true) }),
            ("f64 partial", match parse_partial_opt::<f64, FMT>(&mut cx.arena, inp, place, &fo.lex) { R::Err(e) => Ok(format!("{e:?}")).and_then(|s| if is_config(&e) { Ok(s) } else { Err(false) }), _ => Err(true) }),
            ("i64 complete", match parse_complete_opt::<i64, FMT>(&mut cx.arena, inp, place, &io) { R::Err(e) => Ok(format!("{e:?}")).and_then(|s| if is_config(&e) { Ok(s) } else { Err(false) }), _ => Err(true) }),
            ("i64 partial", match parse_partial_opt::<i64, FMT>(&mut cx.arena, inp, place, &io) { R::Err(e) => Ok(format!("{e:?}")).and_then(|s| if is_config(&e) { Ok(s) } else { Err(false) }), _ => Err(true) }),
        ];
        for (entry, r) in rs {
            bump(cx, "c18.invalid-format-parses");
            match r {
                Ok(_) => {},
                Err(true) => viol(cx, "C18", "invalid-format-yields-value-or-panic", d, "", if entry.starts_with('f') { "f64" } else { "i64" }, inp, format!("{entry}; format invalid because: {reason:?}")),
                Err(false) => viol(cx, "C18", "invalid-format-yields-input-error", d, "", if entry.starts_with('f') { "f64" } else { "i64" }, inp, format!("{entry}; format invalid because: {reason:?}")),
            }
        }
    }
    cx.distinct += inputs.len() as u64;
}

fn main() {
    let args = Args::parse();
    report::quiet_panics();
    guard::install();
    let rep = Report::new();
    let cfg = vharness::config_name();
    rep.note("config", cfg.clone());
    rep.note("profile", vharness::profile_name().to_string());
    rep.note("fmt_seed", FMT_SEED.to_string());
    let prop = args.get("prop").map(|s| s.to_string());
    let thorough = args.thorough();
    let small = args.get("small").is_some() || cfg!(miri);
    let replay_idx: Option<usize> = args.get("idx").map(|s| s.parse().unwrap());
    let replay_in = args.get("replay").map(report::unshow);
    let replay_ty = args.get("type").unwrap_or("f64").to_string();
    let replay_var: u32 = args.get_u64("variant", 0) as u32;
    let nfmt = args.get_u64("nfmt", 64) as usize;
    let total = std::sync::Mutex::new(0u64);
    report::parallel(if replay_in.is_some() { 1 } else { args.threads }, |shard, nshards| {
        let mut cx = Cx { rep: &rep, cfg: cfg.clone(), prop: prop.clone(), counts: BTreeMap::new(), arena: Arena::new(1 << 16), n: shard as u64, distinct: 0, thorough, small, idx: 0, variant: 0 };
        macro_rules! go {
            ($($i:literal)*) => {$(
                {
                    const IDX: usize = PART * 64 + $i;
                    let mine = match replay_idx { Some(r) => r == IDX, None => $i % nshards == shard && $i < nfmt };
                    if mine {
                        let only = replay_in.as_deref().map(|b| (replay_ty.as_str(), b, replay_var));
                        const FMT: u128 = fmt_of(IDX);
                        const NOSEP: u128 = nosep_of(IDX);
                        // what the enabled cargo features let the builder express (fields without a setter keep their defaults)
                        let d = vharness::fmttab::effective(&desc_of::<FMT>(IDX));
                        if SET != SET_INVALID && !lexical_core::format_is_valid::<FMT>() {
                            rep.inconclusive(format!("sampled format #{IDX} {} is not valid for lexical: {:?}", d.name(), lexical_core::format_error::<FMT>()));
                        } else if SET == SET_INVALID {
                            let _ = only;
                            run_invalid::<FMT>(&mut cx, &d, IDX, args.seed);
                        } else {
                            run_format::<FMT, NOSEP>(&mut cx, &d, IDX, args.seed, only);
                        }
                        bump(&mut cx, "formats");
                    }
                }
            )*};
        }
        go!(0 1 2 3 4 5 6 7 8 9 10 11 12 13 14 15 16 17 18 19 20 21 22 23 24 25 26 27 28 29 30 31
            32 33 34 35 36 37 38 39 40 41 42 43 44 45 46 47 48 49 50 51 52 53 54 55 56 57 58 59 60 61 62 63);
        rep.merge_counts(&cx.counts);
        *total.lock().unwrap() += cx.distinct;
    });
    rep.count("distinct_nontrivial", *total.lock().unwrap());
    args.finish(&rep);
}
