//! Reference models written from lexical's documentation (format_builder.rs per-flag tables,
//! docs/DigitSeparators.md): the separator-free number grammar under the syntax flags, the
//! special-string matcher, the digit-separator position classifier and the format validity
//! predicate.  They read a plain `Desc`, never lexical's packed format.
use crate::fmttab::*;
use crate::oracle::{digit_value, Parts};

#[derive(Clone, Debug)]
pub struct POpts {
    pub point: u8,
    pub exp: u8,
    pub nan: Option<Vec<u8>>,
    pub inf: Option<Vec<u8>>,
    pub infinity: Option<Vec<u8>>,
}
impl POpts {
    pub fn standard() -> POpts {
        POpts { point: b'.', exp: b'e', nan: Some(b"NaN".to_vec()), inf: Some(b"inf".to_vec()), infinity: Some(b"infinity".to_vec()) }
    }
}

#[derive(Clone, Debug, PartialEq)]
pub enum SpecialKind {
    Nan,
    Inf,
}

#[derive(Clone, Debug)]
pub enum Rec {
    /// derived by the grammar as a number with these parts
    Number(Parts),
    /// derived as a special value (negative?, kind)
    Special(bool, SpecialKind),
    Reject(&'static str),
    /// the documentation is ambiguous / contradictory for this input: either behaviour is accepted
    Unsure(&'static str),
}

fn eq_case(a: u8, b: u8, sensitive: bool) -> bool {
    if sensitive {
        a == b
    } else {
        a.to_ascii_lowercase() == b.to_ascii_lowercase()
    }
}

fn take_digits(b: &[u8], i: &mut usize, radix: u32, out: &mut Vec<u8>) {
    while *i < b.len() && digit_value(b[*i]) < radix {
        out.push(digit_value(b[*i]) as u8);
        *i += 1;
    }
}

fn match_special(rest: &[u8], s: &Option<Vec<u8>>, sensitive: bool, sep: Option<u8>) -> bool {
    let s = match s {
        Some(s) => s,
        None => return false,
    };
    // with special_digit_separator, separator bytes in the input are ignored
    let cleaned: Vec<u8> = match sep {
        Some(c) => rest.iter().copied().filter(|&x| x != c).collect(),
        None => rest.to_vec(),
    };
    cleaned.len() == s.len() && cleaned.iter().zip(s.iter()).all(|(&a, &b)| eq_case(a, b, sensitive))
}

/// Does `rest` (after the sign) spell one of the configured special strings?
pub fn special_after_sign(d: &Desc, o: &POpts, rest: &[u8]) -> Option<SpecialKind> {
    if d.has(NSP) {
        return None;
    }
    let sens = d.has(CSS);
    let sep = if d.has(SSEP) && d.sep != 0 { Some(d.sep) } else { None };
    if match_special(rest, &o.nan, sens, sep) {
        return Some(SpecialKind::Nan);
    }
    if match_special(rest, &o.inf, sens, sep) || match_special(rest, &o.infinity, sens, sep) {
        return Some(SpecialKind::Inf);
    }
    None
}

/// The documented float grammar for separator-free input (complete parse).
pub fn recognise_float(d: &Desc, o: &POpts, b: &[u8]) -> Rec {
    let n = b.len();
    let mut i = 0;
    let mut p = Parts::default();
    // mantissa sign (applies to specials as well)
    if i < n && (b[i] == b'+' || b[i] == b'-') {
        if b[i] == b'+' && d.has(NPMS) {
            return Rec::Reject("positive mantissa sign not allowed");
        }
        p.neg = b[i] == b'-';
        i += 1;
    } else if d.has(RMS) {
        return Rec::Reject("mantissa sign required");
    }
    let after_sign = i;
    let num = recognise_number_body(d, o, b, i, &mut p);
    match num {
        Ok(()) => Rec::Number(p),
        Err(Rec::Unsure(w)) => Rec::Unsure(w),
        Err(why) => {
            if let Some(k) = special_after_sign(d, o, &b[after_sign..]) {
                return Rec::Special(p.neg, k);
            }
            why
        },
    }
}

fn recognise_number_body(d: &Desc, o: &POpts, b: &[u8], mut i: usize, p: &mut Parts) -> Result<(), Rec> {
    let n = b.len();
    let radix = d.radix as u32;
    if i == n {
        return Err(Rec::Reject("empty"));
    }
    // optional base prefix: "0" + prefix character
    let mut has_prefix = false;
    if d.prefix != 0 && i + 1 < n && b[i] == b'0' && eq_case(b[i + 1], d.prefix, d.has(CSBP)) {
        // if the prefix letter is itself a digit of the radix the grammar is ambiguous
        if digit_value(d.prefix) < radix {
            return Err(Rec::Unsure("prefix letter is a digit"));
        }
        has_prefix = true;
        i += 2;
    }
    take_digits(b, &mut i, radix, &mut p.int_digits);
    let mut has_point = false;
    if i < n && b[i] == o.point {
        has_point = true;
        i += 1;
        take_digits(b, &mut i, radix, &mut p.frac_digits);
    }
    if i < n && eq_case(b[i], o.exp, d.has(CSE)) {
        if d.has(NEN) {
            return Err(Rec::Reject("exponent notation not allowed"));
        }
        i += 1;
        p.has_exp = true;
        let mut signed = false;
        if i < n && (b[i] == b'+' || b[i] == b'-') {
            if b[i] == b'+' && d.has(NPES) {
                return Err(Rec::Reject("positive exponent sign not allowed"));
            }
            p.exp_neg = b[i] == b'-';
            signed = true;
            i += 1;
        }
        if !signed && d.has(RES) {
            return Err(Rec::Reject("exponent sign required"));
        }
        take_digits(b, &mut i, d.eradix(), &mut p.exp_digits);
        if p.exp_digits.is_empty() && d.has(RED) {
            return Err(Rec::Reject("exponent digits required"));
        }
        if d.has(NEWF) && !has_point {
            return Err(Rec::Reject("exponent without fraction"));
        }
    } else if d.has(REN) {
        // (a special value is still possible: handled by the caller)
        return Err(Rec::Reject("exponent notation required"));
    }
    if d.suffix != 0 && i < n && eq_case(b[i], d.suffix, d.has(CSBS)) {
        if digit_value(d.suffix) < radix {
            return Err(Rec::Unsure("suffix letter is a digit"));
        }
        i += 1;
    }
    if i != n {
        return Err(Rec::Reject("trailing bytes"));
    }
    let no_int = p.int_digits.is_empty();
    let no_frac = p.frac_digits.is_empty();
    if no_int && no_frac {
        if d.has(RMD) {
            return Err(Rec::Reject("mantissa digits required"));
        }
        // without required_mantissa_digits the docs say '.' is valid but tables and embedded tests disagree on the rest
        return Err(Rec::Unsure("empty mantissa without required_mantissa_digits"));
    }
    if d.has(RID) && no_int {
        return Err(Rec::Reject("integer digits required"));
    }
    if d.has(RFD) && has_point && no_frac {
        return Err(Rec::Reject("fraction digits required"));
    }
    if d.has(RID) && !d.has(RFD) && has_point && no_frac {
        // table of required_integer_digits lists `1.` as invalid, its embedded test as valid
        return Err(Rec::Unsure("'1.' under required_integer_digits"));
    }
    if d.has(NFLZ) && !has_prefix && p.int_digits.len() > 1 && p.int_digits[0] == 0 {
        return Err(Rec::Reject("float leading zeros"));
    }
    if has_prefix && d.has(NFLZ) && p.int_digits.len() > 1 && p.int_digits[0] == 0 {
        return Err(Rec::Unsure("leading zeros after a base prefix"));
    }
    if has_prefix && no_int {
        // "0x.5" / "0x": docs do not say whether the prefix needs integer digits
        return Err(Rec::Unsure("base prefix without integer digits"));
    }
    Ok(())
}

#[derive(Clone, Debug)]
pub enum IRec {
    /// (negative, digit values)
    Number(bool, Vec<u8>),
    Reject(&'static str),
    Unsure(&'static str),
}

/// The documented integer grammar for separator-free input (complete parse); range is checked by the caller.
pub fn recognise_int(d: &Desc, signed_type: bool, b: &[u8]) -> IRec {
    let n = b.len();
    let radix = d.radix as u32;
    let mut i = 0;
    let mut neg = false;
    if i < n && b[i] == b'+' {
        if d.has(NPMS) {
            return IRec::Reject("positive sign not allowed");
        }
        i += 1;
    } else if i < n && b[i] == b'-' {
        if !signed_type {
            return IRec::Reject("negative sign on unsigned");
        }
        neg = true;
        i += 1;
    } else if d.has(RMS) {
        return IRec::Reject("sign required");
    }
    let mut has_prefix = false;
    if d.prefix != 0 && i + 1 < n && b[i] == b'0' && eq_case(b[i + 1], d.prefix, d.has(CSBP)) {
        if digit_value(d.prefix) < radix {
            return IRec::Unsure("prefix letter is a digit");
        }
        has_prefix = true;
        i += 2;
    }
    let mut digits = Vec::new();
    take_digits(b, &mut i, radix, &mut digits);
    if d.suffix != 0 && i < n && eq_case(b[i], d.suffix, d.has(CSBS)) {
        if digit_value(d.suffix) < radix {
            return IRec::Unsure("suffix letter is a digit");
        }
        i += 1;
    }
    if i != n {
        return IRec::Reject("trailing bytes");
    }
    if digits.is_empty() {
        return IRec::Reject("digits required");
    }
    if d.has(NILZ) && digits.len() > 1 && digits[0] == 0 {
        if has_prefix {
            return IRec::Unsure("leading zeros after a base prefix");
        }
        return IRec::Reject("integer leading zeros");
    }
    IRec::Number(neg, digits)
}

// ---------------------------------------------------------------------------------------------
// digit separators

#[derive(Clone, Copy, Debug, PartialEq, Eq)]
pub enum SepClass {
    Leading,
    Internal,
    Trailing,
    /// component made of separators only
    Alone,
}

#[derive(Clone, Debug)]
pub struct SepRun {
    pub component: u32, // 0 integer, 1 fraction, 2 exponent
    pub class: SepClass,
    pub len: usize,
    pub at: usize,
}

/// Split a (float or integer) literal into components and classify every run of separator bytes.
/// Works on the byte level: a component is a maximal run of digit-or-separator bytes.
pub fn classify_separators(d: &Desc, o: &POpts, b: &[u8], is_float: bool) -> Vec<SepRun> {
    let mut runs = Vec::new();
    let n = b.len();
    let sep = d.sep;
    let mut i = 0;
    if i < n && (b[i] == b'+' || b[i] == b'-') {
        i += 1;
    }
    let mut comp = 0u32;
    loop {
        let radix = if comp == 2 { d.eradix() } else { d.radix as u32 };
        // component = maximal run of digits / separators
        let start = i;
        while i < n && (b[i] == sep || digit_value(b[i]) < radix) {
            // an exponent character that is also a digit cannot occur with valid options
            i += 1;
        }
        let body = &b[start..i];
        let first_digit = body.iter().position(|&c| c != sep);
        let last_digit = body.iter().rposition(|&c| c != sep);
        let mut j = 0;
        while j < body.len() {
            if body[j] == sep {
                let s = j;
                while j < body.len() && body[j] == sep {
                    j += 1;
                }
                let class = match (first_digit, last_digit) {
                    (None, _) | (_, None) => SepClass::Alone,
                    (Some(f), Some(l)) => {
                        if s < f {
                            SepClass::Leading
                        } else if s > l {
                            SepClass::Trailing
                        } else {
                            SepClass::Internal
                        }
                    },
                };
                runs.push(SepRun { component: comp, class, len: j - s, at: start + s });
            } else {
                j += 1;
            }
        }
        if !is_float {
            break;
        }
        if comp == 0 && i < n && b[i] == o.point {
            i += 1;
            comp = 1;
            continue;
        }
        if comp <= 1 && i < n && b[i].to_ascii_lowercase() == o.exp.to_ascii_lowercase() {
            i += 1;
            if i < n && (b[i] == b'+' || b[i] == b'-') {
                i += 1;
            }
            comp = 2;
            continue;
        }
        break;
    }
    runs
}

/// Is this separator run enabled by the flags of its component?
pub fn run_enabled(d: &Desc, r: &SepRun) -> bool {
    let (int, lead, trail, cons) = d.sep_flags(r.component);
    if r.len > 1 && !cons {
        return false;
    }
    match r.class {
        SepClass::Leading => lead,
        SepClass::Trailing => trail,
        SepClass::Internal => int,
        SepClass::Alone => lead || trail,
    }
}

// ---------------------------------------------------------------------------------------------
// validity predicate (C18)

fn is_valid_radix(r: u32) -> bool {
    if cfg!(feature = "radix") {
        (2..=36).contains(&r)
    } else if cfg!(feature = "power-of-two") {
        matches!(r, 2 | 4 | 8 | 10 | 16 | 32)
    } else {
        r == 10
    }
}

#[derive(Clone, Debug, PartialEq)]
pub enum Validity {
    Valid,
    Invalid(&'static str),
    /// the documented constraint does not settle this case (control characters below 0x20 / DEL)
    Unsure(&'static str),
}

/// punctuation byte: Some(true) valid, Some(false) invalid, None = unsettled (non-printable ASCII)
fn control_ok(d: &Desc, c: u8) -> Option<bool> {
    let maxr = (d.radix as u32).max(d.eradix());
    if c >= 0x80 || digit_value(c) < maxr || c == b'+' || c == b'-' {
        return Some(false);
    }
    if c < 0x20 || c == 0x7f {
        return None;
    }
    Some(true)
}

/// Documented validity of a format description, per feature set.
pub fn format_validity(d: &Desc) -> Validity {
    use Validity::*;
    if !is_valid_radix(d.radix as u32) {
        return Invalid("mantissa radix");
    }
    if !is_valid_radix(d.ebase()) {
        return Invalid("exponent base");
    }
    if !is_valid_radix(d.eradix()) {
        return Invalid("exponent radix");
    }
    if !cfg!(feature = "format") {
        // without the feature the builder ignores every other field
        return Valid;
    }
    let mut unsure = false;
    if d.sep != 0 {
        match control_ok(d, d.sep) {
            Some(false) => return Invalid("digit separator"),
            None => unsure = true,
            _ => {},
        }
    }
    if cfg!(feature = "power-of-two") {
        for (c, why) in [(d.prefix, "base prefix"), (d.suffix, "base suffix")] {
            if c != 0 {
                match control_ok(d, c) {
                    Some(false) => return Invalid(why),
                    None => unsure = true,
                    _ => {},
                }
            }
        }
        if (d.sep != 0 && (d.sep == d.prefix || d.sep == d.suffix)) || (d.prefix != 0 && d.prefix == d.suffix) {
            return Invalid("punctuation not distinct");
        }
    }
    if d.has(NEN) && d.has(REN) {
        return Invalid("exponent flags");
    }
    if d.has(NPMS) && d.has(RMS) {
        return Invalid("mantissa sign");
    }
    if d.has(NPES) && d.has(RES) {
        return Invalid("exponent sign");
    }
    if d.has(NSP) && (d.has(CSS) || d.has(SSEP)) {
        return Invalid("special");
    }
    for c in 0..3 {
        let (i, l, t, cons) = d.sep_flags(c);
        if cons && !(i || l || t) {
            return Invalid("consecutive separator without position");
        }
    }
    if unsure {
        return Unsure("non-printable punctuation");
    }
    Valid
}
