// Format-table WRITE executor.  `include!`d by the wx_* bins, which define:
//   const SET: u32;  const PART: usize;  fmt_of(i);  desc_of::<FMT>(i)       (32 formats per part)
// Drives lexical_core::write_with_options / lexical::to_string_with_options / the parsers of the same
// format over (value x format x write options x buffer length x placement) under M-panic, M-guard,
// M-canary and applies the oracles of
//   C08 written bytes are accepted in full by the parser of the same format, with the same value
//   C09 documented buffer bound suffices; shorter buffers succeed within the slice or panic; nothing outside the slice is touched
//   C14 write options (max/min digits, rounding, breaks, trim, punctuation) do what is documented
//   C15 (write side) signed zero, NaN without '-', disabled specials panic
//   C17 lexical::to_string* == lexical_core::write*, every byte ASCII
// `prop=Cxx` keeps only that property's violations (all oracles always run).

use std::collections::BTreeMap;
use vharness::exec::*;
use vharness::fmttab::*;
use vharness::guard::{self, Arena};
use vharness::oracle::{self, Exact, Kind, Parts};
use vharness::report::{self, obj, show, Args, Report};
use vharness::rng::Rng;
use vharness::wgen::{self, WSpec};

struct Cx<'a> {
    rep: &'a Report,
    cfg: String,
    prop: Option<String>,
    counts: BTreeMap<&'static str, u64>,
    arena: Arena,
    n: u64,
    distinct: u64,
    thorough: bool,
    small: bool,
    idx: usize,
    replaying: bool,
}

fn bump(cx: &mut Cx, k: &'static str) {
    *cx.counts.entry(k).or_insert(0) += 1;
}

fn rclass(d: &Desc) -> &'static str {
    let r = d.radix as u32;
    if d.ebase() != r {
        "mixed-base"
    } else if r == 10 {
        "decimal"
    } else if r.is_power_of_two() {
        "pow2"
    } else {
        "generic"
    }
}

#[allow(clippy::too_many_arguments)]
fn viol(cx: &Cx, prop: &str, class: &str, d: &Desc, spec: &str, ty: &str, value: String, out: &[u8], detail: String) {
    // `spec` is "<readable options> ## <replay code>" for float writes, "" or a label otherwise
    let (spec, code) = match spec.split_once(" ## ") {
        Some((a, b)) => (a, b),
        None => (spec, ""),
    };
    if let Some(p) = &cx.prop {
        if p != prop {
            return;
        }
    }
    let kind = if ty.starts_with('f') { ty } else { "int" };
    let sig = format!("{prop}|{class}|{}|{kind}", rclass(d));
    cx.rep.violation(
        &sig,
        obj(&[
            ("property", prop.into()),
            ("config", cx.cfg.clone()),
            ("profile", vharness::profile_name().into()),
            ("set", SET.to_string()),
            ("idx", cx.idx.to_string()),
            ("format", d.name()),
            ("options", spec.into()),
            ("spec", code.into()),
            ("type", ty.into()),
            ("value", value),
            ("output", show(out)),
            ("detail", detail),
        ]),
    );
}

// ---------------------------------------------------------------------------------------------
// reading a written float back without lexical: strict splitter of the writers' output shape

#[derive(Clone, Debug, Default, PartialEq)]
struct Out {
    neg: bool,
    plus: bool,
    int: Vec<u8>,
    has_point: bool,
    frac: Vec<u8>,
    has_exp: bool,
    exp_sign: Option<u8>,
    exp: Vec<u8>,
}

fn upper_digit(c: u8) -> u32 {
    match c {
        b'0'..=b'9' => (c - b'0') as u32,
        b'A'..=b'Z' => (c - b'A') as u32 + 10,
        _ => 99,
    }
}

/// [+-] DIGITS [point DIGITS] [expchar [+-] DIGITS], digits upper-case, at least one integer digit
fn split_out(b: &[u8], radix: u32, exp_radix: u32, point: u8, exp_char: u8) -> Option<Out> {
    let mut o = Out::default();
    let mut i = 0;
    if i < b.len() && (b[i] == b'+' || b[i] == b'-') {
        o.neg = b[i] == b'-';
        o.plus = b[i] == b'+';
        i += 1;
    }
    while i < b.len() && upper_digit(b[i]) < radix {
        o.int.push(upper_digit(b[i]) as u8);
        i += 1;
    }
    if o.int.is_empty() {
        return None;
    }
    if i < b.len() && b[i] == point {
        o.has_point = true;
        i += 1;
        while i < b.len() && upper_digit(b[i]) < radix {
            o.frac.push(upper_digit(b[i]) as u8);
            i += 1;
        }
        if o.frac.is_empty() {
            return None;
        }
    }
    if i < b.len() && b[i] == exp_char {
        o.has_exp = true;
        i += 1;
        if i < b.len() && (b[i] == b'+' || b[i] == b'-') {
            o.exp_sign = Some(b[i]);
            i += 1;
        }
        while i < b.len() && upper_digit(b[i]) < exp_radix {
            o.exp.push(upper_digit(b[i]) as u8);
            i += 1;
        }
        if o.exp.is_empty() {
            return None;
        }
    }
    if i != b.len() {
        return None;
    }
    Some(o)
}

impl Out {
    fn parts(&self) -> Parts {
        Parts { neg: self.neg, int_digits: self.int.clone(), frac_digits: self.frac.clone(), has_exp: self.has_exp, exp_neg: self.exp_sign == Some(b'-'), exp_digits: self.exp.clone() }
    }
    fn explicit_exp(&self, exp_radix: u32) -> i64 {
        let mut e = 0i64;
        for &d in &self.exp {
            e = e.saturating_mul(exp_radix as i64).saturating_add(d as i64);
        }
        if self.exp_sign == Some(b'-') {
            -e
        } else {
            e
        }
    }
    /// (significant digits without leading/trailing zeros, exponent of the first of them in digit units)
    /// only meaningful when the exponent base equals the radix
    fn norm(&self, exp_radix: u32) -> (Vec<u8>, i64) {
        let mut all = self.int.clone();
        all.extend_from_slice(&self.frac);
        let lead = all.iter().take_while(|&&d| d == 0).count();
        let mut digs = all[lead..].to_vec();
        while digs.last() == Some(&0) {
            digs.pop();
        }
        (digs, self.int.len() as i64 - 1 - lead as i64 + self.explicit_exp(exp_radix))
    }
    /// digits from the first non-zero one to the end (all digits for a zero value)
    fn written_digit_count(&self) -> usize {
        let n = self.int.len() + self.frac.len();
        let lead = self.int.iter().chain(self.frac.iter()).take_while(|&&d| d == 0).count();
        if lead == n {
            n
        } else {
            n - lead
        }
    }
}

/// `digits` (first non-zero) rounded to n digits in `radix`: returns (digits without trailing zeros, carried)
fn round_digits(digits: &[u8], n: usize, radix: u32, truncate: bool) -> (Vec<u8>, bool) {
    if n >= digits.len() {
        return (digits.to_vec(), false);
    }
    let mut kept = digits[..n].to_vec();
    let rest = &digits[n..];
    let up = if truncate {
        false
    } else if radix % 2 == 0 {
        let h = (radix / 2) as u8;
        if rest[0] != h {
            rest[0] > h
        } else if rest[1..].iter().any(|&d| d != 0) {
            true
        } else {
            kept[n - 1] % 2 == 1
        }
    } else {
        // odd radix: one half is 0.hhhh... with h = (radix-1)/2, never reached by a finite expansion
        let h = ((radix - 1) / 2) as u8;
        let mut up = false;
        for &d in rest {
            if d != h {
                up = d > h;
                break;
            }
        }
        up
    };
    let mut carried = false;
    if up {
        let mut i = n;
        loop {
            if i == 0 {
                kept.insert(0, 1);
                carried = true;
                break;
            }
            i -= 1;
            if (kept[i] as u32) < radix - 1 {
                kept[i] += 1;
                break;
            }
            kept[i] = 0;
        }
    }
    while kept.last() == Some(&0) {
        kept.pop();
    }
    (kept, carried)
}

fn bin_exp(k: Kind, abs: u64) -> i64 {
    let (m, p) = k.decode(abs);
    if m == 0 {
        0
    } else {
        63 - m.leading_zeros() as i64 + p
    }
}

fn floor_div(a: i64, b: i64) -> i64 {
    a.div_euclid(b)
}

struct DefInfo {
    out: Vec<u8>,
    split: Option<Out>,
}

#[derive(Clone, Copy, PartialEq)]
enum Depth {
    /// all oracles incl. short buffers
    Full,
    /// bound + oracles, no short buffers
    Normal,
}

/// all oracles for one (float value, format, options)
#[allow(clippy::too_many_arguments)]
fn judge_float<T: LFloat, const FMT: u128>(cx: &mut Cx, d: &Desc, spec: &WSpec, wopts: &lexical_core::WriteFloatOptions, popts: &lexical_core::ParseFloatOptions, bits: u64, def: Option<&DefInfo>, depth: Depth, rng: &mut Rng) -> Option<Vec<u8>> {
    let k: Kind = T::KIND;
    let ty = k.name();
    cx.n += 1;
    let place = place_for(cx.n);
    let v = T::from_bits64(bits);
    let abs = bits & k.abs_mask();
    let neg = bits & k.sign_bit() != 0;
    let is_nan = k.is_nan(bits);
    let is_inf = abs == k.inf_bits();
    let special = is_nan || is_inf;
    let radix = d.radix as u32;
    let vs = format!("{bits:#x}");
    let sname = format!("{} ## {}", spec.name(), spec.encode());
    let bound = wopts.buffer_size_const::<T, FMT>();
    if bound > cx.arena.capacity() {
        bump(cx, "skipped.bound-exceeds-arena");
        return None;
    }
    guard::set_crumb(format!("write {} {} {vs} [{}] L={bound}", d.name(), ty, sname).as_bytes());
    let w = write_opt_w::<T, FMT>(&mut cx.arena, v, bound, place, wopts);
    bump(cx, if k.mant_bits == 52 { "evals.f64" } else { "evals.f32" });
    if !w.zone_ok {
        viol(cx, "C09", "wrote-outside-slice", d, &sname, ty, vs.clone(), b"", format!("canary next to the {bound}-byte buffer damaged"));
    }
    let disabled = (is_nan && spec.nan.is_none()) || (is_inf && spec.inf.is_none());
    let out = match w.res {
        Ok(o) => o,
        Err(p) => {
            if disabled {
                bump(cx, "c15.disabled-special-panicked");
            } else {
                viol(cx, "C09", "panic-at-documented-bound", d, &sname, ty, vs, b"", format!("L={bound}: {p}"));
            }
            return None;
        },
    };
    if disabled {
        viol(cx, "C15", "disabled-special-written", d, &sname, ty, vs, &out, String::new());
        return None;
    }
    if !w.at_start {
        viol(cx, "C09", "returned-slice-not-a-prefix", d, &sname, ty, vs.clone(), &out, String::new());
    }
    if w.scribbled > 0 {
        bump(cx, "c09.scribble-past-returned-length-inside-buffer");
    }
    // ---- C17: ASCII, and the allocating facade produces the same bytes
    if out.iter().any(|&b| b >= 0x80) {
        viol(cx, "C17", "non-ascii-output", d, &sname, ty, vs.clone(), &out, String::new());
    }
    if cx.n % 2 == 0 || depth == Depth::Full {
        guard::set_crumb(format!("to_string_with_options {} {ty} {vs} [{sname}]", d.name()).as_bytes());
        match report::catch(|| lexical::to_string_with_options::<T, FMT>(v, wopts)) {
            Ok(s) => {
                if s.as_bytes() != &out[..] {
                    viol(cx, "C17", "to_string-differs-from-core", d, &sname, ty, vs.clone(), &out, format!("to_string_with_options: {}", show(s.as_bytes())));
                }
                bump(cx, "c17.to_string-compared");
            },
            Err(p) => viol(cx, "C17", "to_string-panicked", d, &sname, ty, vs.clone(), &out, p),
        }
    }
    // ---- C09: shorter buffers succeed within the slice or panic; memory outside untouched
    if depth == Depth::Full {
        let mut lens = vec![bound - 1, out.len(), out.len().saturating_sub(1), 0, 1, out.len() + 1, bound / 2];
        lens.push(rng.below(bound as u64) as usize);
        lens.sort();
        lens.dedup();
        for l in lens {
            if l >= bound {
                continue;
            }
            for pl in [guard::Place::Tail, guard::Place::Head] {
                guard::set_crumb(format!("write {} {} {vs} [{}] L={l} {pl:?}", d.name(), ty, sname).as_bytes());
                let ws = write_opt_w::<T, FMT>(&mut cx.arena, v, l, pl, wopts);
                bump(cx, "c09.short-buffer-writes");
                if !ws.zone_ok {
                    viol(cx, "C09", "wrote-outside-slice", d, &sname, ty, vs.clone(), b"", format!("canary next to the {l}-byte buffer damaged"));
                }
                match ws.res {
                    Ok(o) => {
                        bump(cx, "c09.short-buffer-succeeded");
                        if !ws.at_start || o.len() > l {
                            viol(cx, "C09", "returned-slice-not-a-prefix", d, &sname, ty, vs.clone(), &o, format!("L={l}"));
                        }
                    },
                    Err(_) => bump(cx, "c09.short-buffer-panicked"),
                }
            }
        }
    }
    // ---- C15 write side: specials and the sign of zero
    let plus_required = d.has(RMS);
    if special {
        let mut want: Vec<u8> = Vec::new();
        if is_inf && neg {
            want.push(b'-');
        } else if plus_required {
            want.push(b'+');
        }
        want.extend_from_slice(if is_nan { spec.nan.unwrap() } else { spec.inf.unwrap() });
        if out != want {
            let class = if is_nan { "nan-not-written-as-configured" } else { "inf-not-written-as-configured" };
            viol(cx, "C15", class, d, &sname, ty, vs.clone(), &out, format!("expected {}", show(&want)));
        }
        bump(cx, "c15.special-writes");
    } else if abs == 0 {
        let has_minus = out.first() == Some(&b'-');
        if has_minus != neg {
            viol(cx, "C15", "sign-of-zero-lost-on-write", d, &sname, ty, vs.clone(), &out, String::new());
        }
        bump(cx, "c15.zero-writes");
    }
    // ---- C08: what lexical writes, lexical parses back
    guard::set_crumb(format!("reparse {} {} {}", d.name(), ty, show(&out)).as_bytes());
    let r = parse_complete_opt::<T, FMT>(&mut cx.arena, &out, place, popts);
    bump(cx, "c08.reparsed");
    // special strings whose letters are all digits of the radix are read as numbers (known design limitation)
    let spells_digits = |s: Option<&'static [u8]>| s.map(|s| s.iter().all(|&c| oracle::digit_value(c) < radix)).unwrap_or(false);
    let special_class = |base: &str| -> String {
        if (is_nan && spells_digits(spec.nan)) || (is_inf && spells_digits(spec.inf)) {
            format!("{base}:special-string-letters-are-digits-of-the-radix")
        } else {
            base.to_string()
        }
    };
    match &r {
        R::Ok(back, _) => {
            let bb = back.bits64();
            if special {
                if !d.has(NSP) {
                    let good = if is_nan { k.is_nan(bb) } else { bb == bits };
                    if !good {
                        viol(cx, "C08", &special_class("special-read-back-differently"), d, &sname, ty, vs.clone(), &out, format!("parsed back as {bb:#x}"));
                    }
                }
            } else if abs == 0 {
                if bb != bits {
                    viol(cx, "C08", "zero-read-back-differently", d, &sname, ty, vs.clone(), &out, format!("parsed back as {bb:#x}"));
                }
            } else if spec.max.is_none() && (radix == 10 || radix.is_power_of_two()) && bb != bits {
                viol(cx, "C08", "value-read-back-differently", d, &sname, ty, vs.clone(), &out, format!("parsed back as {bb:#x}"));
            }
        },
        R::Err(e) => {
            if !(special && d.has(NSP)) {
                let class = if special { special_class("special-output-rejected") } else { "output-rejected-by-parser".to_string() };
                viol(cx, "C08", &class, d, &sname, ty, vs.clone(), &out, format!("{e:?}"));
            }
        },
        R::Panic(p) => viol(cx, "C08", "parser-panicked-on-output", d, &sname, ty, vs.clone(), &out, p.clone()),
    }
    if special {
        cx.distinct += 1;
        return Some(out);
    }
    if cfg!(miri) {
        // under Miri the interpreter is the monitor; the exact-arithmetic option oracles run in the native builds
        cx.distinct += 1;
        return Some(out);
    }
    // ---- C14: digits, rounding, notation, trimming, punctuation
    let o = match split_out(&out, radix, d.eradix(), spec.point, spec.exp) {
        Some(o) => o,
        None => {
            viol(cx, "C14", "malformed-output", d, &sname, ty, vs.clone(), &out, "not [+-]DIGITS[point DIGITS][exp[+-]DIGITS] with the configured characters".into());
            return Some(out);
        },
    };
    if o.neg != neg || o.plus != (plus_required && !neg) {
        viol(cx, "C14", "mantissa-sign", d, &sname, ty, vs.clone(), &out, String::new());
    }
    if o.has_exp {
        let want_sign = if o.explicit_exp(d.eradix()) < 0 || o.exp_sign == Some(b'-') { Some(b'-') } else if d.has(RES) { Some(b'+') } else { None };
        if o.exp_sign != want_sign {
            viol(cx, "C14", "exponent-sign", d, &sname, ty, vs.clone(), &out, String::new());
        }
    }
    let same_base = d.ebase() == radix;
    let (odigs, osci) = o.norm(d.eradix());
    let x_out = o.parts().exact(radix, d.ebase(), d.eradix());
    // notation
    {
        let mut cands: Vec<i64> = Vec::new();
        if abs == 0 || odigs.is_empty() {
            // a zero (or an output that denotes zero): scientific exponent 0
            cands.push(0);
        }
        if abs != 0 {
            let be = bin_exp(k, abs);
            let out_f = oracle::round_nearest_even(k, &x_out);
            let be_out = if out_f == 0 { be } else if out_f >= k.inf_bits() { bin_exp(k, k.inf_bits() - 1) + 1 } else { bin_exp(k, out_f) };
            if same_base {
                if let Some(ds) = def.and_then(|x| x.split.as_ref()) {
                    cands.push(ds.norm(d.eradix()).1);
                }
                cands.push(osci);
            }
            if radix.is_power_of_two() {
                let bpd = radix.trailing_zeros() as i64;
                let bpb = d.ebase().trailing_zeros() as i64;
                for b in [be, be_out] {
                    cands.push(b);
                    cands.push(floor_div(b, bpd));
                    cands.push(floor_div(b, bpb));
                }
            }
        }
        let want_exp = |e: i64| e < spec.neg_break() as i64 || e > spec.pos_break() as i64;
        let ok = if d.has(NEN) {
            !o.has_exp
        } else if d.has(REN) {
            o.has_exp
        } else {
            cands.iter().any(|&e| want_exp(e) == o.has_exp)
        };
        if !ok {
            viol(cx, "C14", if d.has(NEN) { "exponent-notation-although-forbidden" } else if d.has(REN) { "no-exponent-notation-although-required" } else { "notation-disagrees-with-breaks" }, d, &sname, ty, vs.clone(), &out, format!("scientific exponent candidates {cands:?}, breaks {}..{}", spec.neg_break(), spec.pos_break()));
        }
        bump(cx, if o.has_exp { "c14.exponent-notation" } else { "c14.positional-notation" });
    }
    // digit counts
    if let Some(mx) = spec.max {
        if odigs.len() > mx {
            viol(cx, "C14", "more-than-max-significant-digits", d, &sname, ty, vs.clone(), &out, format!("{} significant digits", odigs.len()));
        }
    }
    if let Some(mn) = spec.min {
        let trimmed_integer = spec.trim && !o.has_point;
        if !trimmed_integer && o.written_digit_count() < mn {
            viol(cx, "C14", "fewer-than-min-significant-digits", d, &sname, ty, vs.clone(), &out, format!("{} digits written", o.written_digit_count()));
        }
    }
    // value = default output rounded to max digits
    if let Some(df) = def {
        match &df.split {
            None => {}, // the default output itself is malformed: reported when it was judged
            Some(ds) => {
                if same_base {
                    let (ddigs, dsci) = ds.norm(d.eradix());
                    let n = spec.max.unwrap_or(usize::MAX);
                    let (want, carried) = round_digits(&ddigs, n, radix, spec.truncate);
                    let want_sci = dsci + carried as i64;
                    if !ddigs.is_empty() && n < ddigs.len() {
                        bump(cx, if carried { "c14.rounding-carried" } else { "c14.rounded" });
                    }
                    if odigs != want || (!want.is_empty() && osci != want_sci) {
                        let class = if spec.max.is_none() { "digits-differ-from-default-output" } else if spec.truncate { "not-default-output-truncated-to-max-digits" } else { "not-default-output-rounded-half-even-to-max-digits" };
                        viol(cx, "C14", class, d, &sname, ty, vs.clone(), &out, format!("default output {} ; expected digits {:?} exponent {want_sci}, got {:?} exponent {osci}", show(&df.out), want, odigs));
                    }
                } else if spec.max.is_none() {
                    // mixed base: digit alignment depends on the notation, compare exact values
                    let x_def = ds.parts().exact(radix, d.ebase(), d.eradix());
                    let same = match (&x_def, &x_out) {
                        (Exact::Zero, Exact::Zero) => true,
                        (Exact::Rat(a, b), Exact::Rat(c, e)) => a.mul(e).cmp(&c.mul(b)) == std::cmp::Ordering::Equal,
                        _ => false,
                    };
                    if !same {
                        viol(cx, "C14", "digits-differ-from-default-output", d, &sname, ty, vs.clone(), &out, format!("default output {}", show(&df.out)));
                    }
                } else {
                    bump(cx, "c14.mixed-base-max-digits-value-not-judged");
                }
            },
        }
    }
    // trim_floats removes exactly the ".0" of integral outputs
    if spec.trim {
        let mut s2 = spec.clone();
        s2.trim = false;
        let w2 = write_opt_w::<T, FMT>(&mut cx.arena, v, bound, place, &s2.build());
        if let Ok(u) = &w2.res {
            if let Some(us) = split_out(u, radix, d.eradix(), spec.point, spec.exp) {
                let integral = us.has_point && us.frac.iter().all(|&z| z == 0);
                let keep_fraction = us.has_exp && d.has(NEWF);
                let want: Vec<u8> = if integral && !keep_fraction {
                    let pt = u.iter().position(|&c| c == spec.point).unwrap();
                    let mut t = u[..pt].to_vec();
                    t.extend_from_slice(&u[pt + 1 + us.frac.len()..]);
                    t
                } else {
                    u.clone()
                };
                if out != want {
                    viol(cx, "C14", "trim_floats-not-exactly-dot-zero", d, &sname, ty, vs.clone(), &out, format!("untrimmed output {}", show(u)));
                }
                bump(cx, if integral { "c14.trim-applied" } else { "c14.trim-not-applicable" });
            }
        }
    }
    cx.distinct += 1;
    if cx.n % 250_007 == 3 {
        cx.rep.sample(format!("set{} #{} {} [{}] {} {vs} -> {}", SET, cx.idx, d.name(), sname, ty, show(&out)));
    }
    Some(out)
}

/// integers: bound, short buffers, parse back, facade
fn judge_int<T: LInt, const FMT: u128>(cx: &mut Cx, d: &Desc, v: T, full: bool) {
    cx.n += 1;
    let place = place_for(cx.n);
    let ty = T::NAME;
    let wopts = lexical_core::WriteIntegerOptions::new();
    let popts = lexical_core::ParseIntegerOptions::new();
    let bound = wopts.buffer_size_const::<T, FMT>();
    let vs = format!("{v}");
    guard::set_crumb(format!("write {} {} {vs} L={bound}", d.name(), ty).as_bytes());
    let w = write_opt_w::<T, FMT>(&mut cx.arena, v, bound, place, &wopts);
    bump(cx, "evals.int");
    if !w.zone_ok {
        viol(cx, "C09", "wrote-outside-slice", d, "", ty, vs.clone(), b"", format!("canary next to the {bound}-byte buffer damaged"));
    }
    let out = match w.res {
        Ok(o) => o,
        Err(p) => {
            viol(cx, "C09", "panic-at-documented-bound", d, "", ty, vs, b"", format!("L={bound}: {p}"));
            return;
        },
    };
    if !w.at_start {
        viol(cx, "C09", "returned-slice-not-a-prefix", d, "", ty, vs.clone(), &out, String::new());
    }
    if out.iter().any(|&b| b >= 0x80) {
        viol(cx, "C17", "non-ascii-output", d, "", ty, vs.clone(), &out, String::new());
    }
    guard::set_crumb(format!("to_string_with_options {} {ty} {vs}", d.name()).as_bytes());
    match report::catch(|| lexical::to_string_with_options::<T, FMT>(v, &wopts)) {
        Ok(s) => {
            if s.as_bytes() != &out[..] {
                viol(cx, "C17", "to_string-differs-from-core", d, "", ty, vs.clone(), &out, format!("to_string_with_options: {}", show(s.as_bytes())));
            }
            bump(cx, "c17.to_string-compared");
        },
        Err(p) => viol(cx, "C17", "to_string-panicked", d, "", ty, vs.clone(), &out, p),
    }
    let r = parse_complete_opt::<T, FMT>(&mut cx.arena, &out, place, &popts);
    bump(cx, "c08.reparsed");
    match &r {
        R::Ok(back, _) => {
            if *back != v {
                viol(cx, "C08", "value-read-back-differently", d, "", ty, vs.clone(), &out, format!("parsed back as {back}"));
            }
        },
        R::Err(e) => viol(cx, "C08", "output-rejected-by-parser", d, "", ty, vs.clone(), &out, format!("{e:?}")),
        R::Panic(p) => viol(cx, "C08", "parser-panicked-on-output", d, "", ty, vs.clone(), &out, p.clone()),
    }
    if full {
        for l in 0..bound {
            if l > out.len() + 2 && l + 2 < bound && l % 7 != 0 {
                continue;
            }
            if cx.small && !(l == 0 || l + 1 == out.len() || l == out.len() || l + 1 == bound) {
                continue;
            }
            for pl in [guard::Place::Tail, guard::Place::Head] {
                if cx.small && pl == guard::Place::Head {
                    continue;
                }
                guard::set_crumb(format!("write {} {} {vs} L={l} {pl:?}", d.name(), ty).as_bytes());
                let ws = write_opt_w::<T, FMT>(&mut cx.arena, v, l, pl, &wopts);
                bump(cx, "c09.short-buffer-writes");
                if !ws.zone_ok {
                    viol(cx, "C09", "wrote-outside-slice", d, "", ty, vs.clone(), b"", format!("canary next to the {l}-byte buffer damaged"));
                }
                match ws.res {
                    Ok(o) => {
                        bump(cx, "c09.short-buffer-succeeded");
                        if !ws.at_start || o.len() > l {
                            viol(cx, "C09", "returned-slice-not-a-prefix", d, "", ty, vs.clone(), &o, format!("L={l}"));
                        }
                    },
                    Err(_) => bump(cx, "c09.short-buffer-panicked"),
                }
            }
        }
    }
    cx.distinct += 1;
}

fn int_values<T: LInt>(rng: &mut Rng, radix: u32, n: usize) -> Vec<T> {
    let mut v: Vec<T> = Vec::new();
    for neg in [false, true] {
        let mx = T::max_mag(neg);
        for m in [0u128, 1, 2, mx, mx.saturating_sub(1), mx / 2, mx / radix as u128, radix as u128 - 1, radix as u128] {
            if let Some(x) = T::join(neg, m.min(mx)) {
                v.push(x);
            }
        }
        let mut p = 1u128;
        while p <= mx / radix as u128 {
            p *= radix as u128;
            for m in [p - 1, p, p + 1] {
                if m <= mx && rng.chance(1, 3) {
                    if let Some(x) = T::join(neg, m) {
                        v.push(x);
                    }
                }
            }
        }
    }
    for _ in 0..n {
        v.push(T::wrap(rng.next_u128() >> rng.below(T::BITS as u64)));
    }
    v
}

fn run_format<const FMT: u128>(cx: &mut Cx, d: &Desc, idx: usize, seed: u64, replay: Option<(&str, &str, &WSpec)>) {
    let mut rng = Rng::stream(seed, 7000 + idx as u64 * 11 + SET as u64);
    cx.idx = idx;
    if let Some((ty, value, spec)) = replay {
        cx.replaying = true;
        let wopts = spec.build();
        let popts = spec.parse_opts();
        let plain = WSpec { nan: spec.nan, inf: spec.inf, infinity: spec.infinity, ..WSpec::plain(spec.point, spec.exp) };
        match ty {
            "f64" | "f32" => {
                let bits = u64::from_str_radix(value.trim_start_matches("0x"), 16).expect("bits");
                if ty == "f64" {
                    let def = default_info::<f64, FMT>(cx, d, &plain, bits);
                    judge_float::<f64, FMT>(cx, d, spec, &wopts, &popts, bits, def.as_ref(), Depth::Full, &mut rng);
                } else {
                    let def = default_info::<f32, FMT>(cx, d, &plain, bits);
                    judge_float::<f32, FMT>(cx, d, spec, &wopts, &popts, bits, def.as_ref(), Depth::Full, &mut rng);
                }
            },
            _ => {
                macro_rules! one {
                    ($t:ty) => {
                        if ty == <$t as LInt>::NAME {
                            judge_int::<$t, FMT>(cx, d, value.parse::<$t>().expect("integer value"), true);
                        }
                    };
                }
                vharness::for_int_types!(one);
            },
        }
        return;
    }
    let radix = d.radix as u32;
    let nvariants = if cx.small { 1 } else { 3 };
    let nspecs = if cx.small { 10 } else if cx.thorough { 72 } else { 40 };
    let nrand = if cx.small { 24 } else if cx.thorough { 1500 } else { 300 };
    let with_f32 = idx % 2 == 0;
    for variant in 0..nvariants {
        let mut orng = Rng::stream(seed, 7500 + idx as u64 * 5 + variant as u64);
        let (point, exp) = wgen::punct_for(d, variant, &mut orng);
        let sv = if variant == 0 { 0 } else { 1 + orng.below(4) as u32 };
        let (nan, inf, infinity) = wgen::special_strings(&mut orng, sv);
        let mut specs = wgen::option_grid(&mut orng, point, exp, nspecs.max(32));
        if cx.small {
            // Miri / valgrind size: default, trim, exponent notation, max 1 (round), max 17 (truncate), min 5, seeded one
            let pick = [0usize, 1, 2, 4, 17, 20, 31];
            specs = pick.iter().map(|&i| specs[i].clone()).collect();
        } else {
            specs.truncate(nspecs);
        }
        for s in specs.iter_mut() {
            s.nan = nan;
            s.inf = inf;
            s.infinity = infinity;
        }
        let plain = specs[0].clone();
        for (is32, kind) in [(false, oracle::F64), (true, oracle::F32)] {
            if is32 && !with_f32 {
                continue;
            }
            let mut vals = wgen::float_values(kind, radix, &mut rng, nrand, false);
            if cx.small {
                let keep: Vec<u64> = (0..18).map(|_| vals[rng.below(vals.len() as u64) as usize]).collect();
                vals = keep;
                vals.extend_from_slice(&[0, 1, kind.inf_bits() - 1]);
            }
            // both signs for a third of the values; specials
            let n0 = vals.len();
            for i in (0..n0).step_by(3) {
                vals.push(vals[i] | kind.sign_bit());
            }
            vals.push(kind.sign_bit());
            vals.extend(wgen::special_values(kind));
            // default outputs (same punctuation), judged fully themselves
            let mut defs: Vec<Option<DefInfo>> = Vec::with_capacity(vals.len());
            for &b in &vals {
                defs.push(if is32 { default_info::<f32, FMT>(cx, d, &plain, b) } else { default_info::<f64, FMT>(cx, d, &plain, b) });
            }
            for (si, spec) in specs.iter().enumerate() {
                let wopts = spec.build();
                let popts = spec.parse_opts();
                // the first specs (fixed corners) see every value; seeded ones a third of them
                let stride = if si < 12 { 1 } else { 3 };
                let mut i = (si + variant as usize) % stride;
                while i < vals.len() {
                    let depth = if (i + si) % (if cx.small { 48 } else { 16 }) == 0 { Depth::Full } else { Depth::Normal };
                    if is32 {
                        judge_float::<f32, FMT>(cx, d, spec, &wopts, &popts, vals[i], defs[i].as_ref(), depth, &mut rng);
                    } else {
                        judge_float::<f64, FMT>(cx, d, spec, &wopts, &popts, vals[i], defs[i].as_ref(), depth, &mut rng);
                    }
                    i += stride;
                }
            }
        }
    }
    // integers
    let nint = if cx.small { 6 } else if cx.thorough { 400 } else { 60 };
    macro_rules! ints {
        ($t:ty) => {
            for v in int_values::<$t>(&mut rng, radix, nint) {
                judge_int::<$t, FMT>(cx, d, v, true);
            }
        };
    }
    if idx % 8 == 0 {
        vharness::for_int_types!(ints);
    } else {
        ints!(i32);
        ints!(u64);
    }
}

/// the default-options output (same punctuation and special strings) for one value
fn default_info<T: LFloat, const FMT: u128>(cx: &mut Cx, d: &Desc, plain: &WSpec, bits: u64) -> Option<DefInfo> {
    let k = T::KIND;
    if (bits & k.abs_mask()) >= k.inf_bits() {
        return None;
    }
    let wopts = plain.build();
    let bound = wopts.buffer_size_const::<T, FMT>();
    let w = write_opt_w::<T, FMT>(&mut cx.arena, T::from_bits64(bits), bound, guard::Place::Tail, &wopts);
    match w.res {
        Ok(o) => {
            let split = split_out(&o, d.radix as u32, d.eradix(), plain.point, plain.exp);
            Some(DefInfo { out: o, split })
        },
        Err(_) => None,
    }
}

/// default API (STANDARD format, default options) for all 14 types: bound, short buffers, facade, parse side of C17
fn run_default_api(cx: &mut Cx, seed: u64, shard: usize, nshards: usize) {
    let d = Desc::STANDARD;
    let mut rng = Rng::stream(seed, 7999);
    let nint = if cx.small { 20 } else if cx.thorough { 6000 } else { 1500 };
    // work items are dealt to the shards round-robin: 12 integer types, f64 x4, f32 x4, the parse corpus
    let mut item = 0usize;
    let mut mine = || {
        item += 1;
        (item - 1) % nshards == shard
    };
    macro_rules! ints {
        ($t:ty) => {
            let vals = int_values::<$t>(&mut rng, 10, nint);
            if mine() {
                for v in vals {
                    judge_default_write::<$t>(cx, &d, v, format!("{v}"), <$t as LInt>::NAME);
                }
            }
        };
    }
    vharness::for_int_types!(ints);
    for (is32, kind) in [(false, oracle::F64), (true, oracle::F32), (false, oracle::F64), (true, oracle::F32), (false, oracle::F64), (true, oracle::F32), (false, oracle::F64), (true, oracle::F32)] {
        let mut vals = wgen::float_values(kind, 10, &mut rng, if cx.small { 50 } else if cx.thorough { 20_000 } else { 2000 }, false);
        if cx.small {
            let keep: Vec<u64> = (0..40).map(|_| vals[rng.below(vals.len() as u64) as usize]).collect();
            vals = keep;
            vals.extend_from_slice(&[0, 1, kind.inf_bits() - 1]);
        }
        let n0 = vals.len();
        for i in (0..n0).step_by(3) {
            vals.push(vals[i] | kind.sign_bit());
        }
        vals.extend(wgen::special_values(kind));
        if !mine() {
            continue;
        }
        for b in vals {
            if is32 {
                judge_default_write::<f32>(cx, &d, f32::from_bits(b as u32), format!("{b:#x}"), "f32");
            } else {
                judge_default_write::<f64>(cx, &d, f64::from_bits(b), format!("{b:#x}"), "f64");
            }
        }
    }
    // options the builder ACCEPTS must only ever produce ASCII: offer it non-ASCII / control punctuation and special
    // strings; whatever `build()` lets through is driven through the writer and the allocating facade
    if mine() {
        const STD: u128 = lexical_core::format::STANDARD;
        let bytes: [u8; 12] = [0x00, 0x01, 0x08, 0x0e, 0x1f, 0x7f, 0x80, 0x9f, 0xa0, 0xb7, 0xe9, 0xff];
        let strs: [&'static [u8]; 8] = [b"n\xe9n", b"N\x80", b"nan\xff", b"\xeean", b"i\xb7f", b"Inf\x00", b"n a n", b"in_f"];
        let vals: [u64; 6] = [1.5f64.to_bits(), (-2.5e30f64).to_bits(), 1e-7f64.to_bits(), f64::NAN.to_bits(), f64::INFINITY.to_bits(), f64::NEG_INFINITY.to_bits()];
        let mut builders: Vec<(String, lexical_core::WriteFloatOptionsBuilder)> = Vec::new();
        for &c in &bytes {
            builders.push((format!("decimal_point={c:#x}"), lexical_core::WriteFloatOptions::builder().decimal_point(c)));
            builders.push((format!("exponent={c:#x}"), lexical_core::WriteFloatOptions::builder().exponent(c)));
        }
        for st in strs {
            builders.push((format!("nan_string={}", show(st)), lexical_core::WriteFloatOptions::builder().nan_string(Some(st))));
            builders.push((format!("inf_string={}", show(st)), lexical_core::WriteFloatOptions::builder().inf_string(Some(st))));
        }
        for (name, b) in builders {
            bump(cx, "c17.hostile-options-offered");
            let opts = match b.build() {
                Ok(o) => o,
                Err(_) => continue,
            };
            bump(cx, "c17.hostile-options-accepted-by-builder");
            for &bits in &vals {
                let v = f64::from_bits(bits);
                let bound = opts.buffer_size_const::<f64, STD>();
                let w = write_opt_w::<f64, STD>(&mut cx.arena, v, bound, guard::Place::Tail, &opts);
                if let Ok(o) = &w.res {
                    if o.iter().any(|&x| x >= 0x80) {
                        viol(cx, "C17", "non-ascii-output-under-accepted-options", &d, &name, "f64", format!("{bits:#x}"), o, "the options builder accepted these options".into());
                    }
                }
                if let Ok(sv) = report::catch(|| lexical::to_string_with_options::<f64, STD>(v, &opts)) {
                    if std::str::from_utf8(sv.as_bytes()).is_err() {
                        viol(cx, "C17", "to_string-returned-invalid-utf8", &d, &name, "f64", format!("{bits:#x}"), sv.as_bytes(), "the options builder accepted these options".into());
                    }
                }
            }
        }
    }
    // parse side of the facade on a hostile corpus
    if !mine() {
        return;
    }
    let seeds: [&[u8]; 22] = [b"", b"0", b"-0", b"+1", b"1.5", b"-1.5e3", b"1e", b"1e+", b".", b".5", b"5.", b"nan", b"NaN", b"inf", b"-infinity", b"infinit", b"1_000", b"0x10", b"18446744073709551616", b"-129", b"1e400", b"123abc"];
    let mut corpus: Vec<Vec<u8>> = seeds.iter().map(|s| s.to_vec()).collect();
    for _ in 0..(if cx.small { 60 } else if cx.thorough { 60000 } else { 6000 }) {
        let mut s = rng.pick(&seeds).to_vec();
        for _ in 0..rng.below(3) {
            let at = rng.below(s.len() as u64 + 1) as usize;
            s.insert(at, *rng.pick(b"0123456789+-.eEnaif_ \x00\x80\xff"));
        }
        corpus.push(s);
    }
    let fo = lexical_core::ParseFloatOptions::new();
    let io = lexical_core::ParseIntegerOptions::new();
    const STD: u128 = lexical_core::format::STANDARD;
    for s in &corpus {
        macro_rules! cmp {
            ($t:ty, $o:expr, $same:expr) => {{
                cx.n += 1;
                let a = report::catch(|| lexical::parse::<$t, _>(s));
                let b = report::catch(|| lexical_core::parse::<$t>(s));
                let c = report::catch(|| lexical::parse_partial::<$t, _>(s));
                let e = report::catch(|| lexical_core::parse_partial::<$t>(s));
                let f = report::catch(|| lexical::parse_with_options::<$t, _, STD>(s, $o));
                let g = report::catch(|| lexical_core::parse_with_options::<$t, STD>(s, $o));
                let h = report::catch(|| lexical::parse_partial_with_options::<$t, _, STD>(s, $o));
                let i = report::catch(|| lexical_core::parse_partial_with_options::<$t, STD>(s, $o));
                let same1 = match (&a, &b) { (Ok(Ok(x)), Ok(Ok(y))) => $same(*x, *y), (Ok(Err(x)), Ok(Err(y))) => x == y, (Err(_), Err(_)) => true, _ => false };
                let same2 = match (&c, &e) { (Ok(Ok((x, n))), Ok(Ok((y, m)))) => n == m && $same(*x, *y), (Ok(Err(x)), Ok(Err(y))) => x == y, (Err(_), Err(_)) => true, _ => false };
                let same3 = match (&f, &g) { (Ok(Ok(x)), Ok(Ok(y))) => $same(*x, *y), (Ok(Err(x)), Ok(Err(y))) => x == y, (Err(_), Err(_)) => true, _ => false };
                let same4 = match (&h, &i) { (Ok(Ok((x, n))), Ok(Ok((y, m)))) => n == m && $same(*x, *y), (Ok(Err(x)), Ok(Err(y))) => x == y, (Err(_), Err(_)) => true, _ => false };
                bump(cx, "c17.parse-pairs");
                if !(same1 && same2 && same3 && same4) {
                    viol(cx, "C17", "facade-parse-differs-from-core", &d, "", stringify!($t), show(s), b"", format!("parse {a:?} vs {b:?}; partial {c:?} vs {e:?}; with_options {f:?} vs {g:?}; partial_with_options {h:?} vs {i:?}"));
                }
            }};
        }
        cmp!(f64, &fo, |x: f64, y: f64| x.to_bits() == y.to_bits() || (x.is_nan() && y.is_nan()));
        cmp!(f32, &fo, |x: f32, y: f32| x.to_bits() == y.to_bits() || (x.is_nan() && y.is_nan()));
        cmp!(i64, &io, |x: i64, y: i64| x == y);
        cmp!(u8, &io, |x: u8, y: u8| x == y);
        cmp!(i128, &io, |x: i128, y: i128| x == y);
        cmp!(usize, &io, |x: usize, y: usize| x == y);
    }
    cx.distinct += corpus.len() as u64;
}

fn judge_default_write<T>(cx: &mut Cx, d: &Desc, v: T, vs: String, ty: &'static str)
where
    T: lexical_core::ToLexical + lexical_core::FromLexical + lexical_core::FormattedSize + Copy + PartialEq + std::fmt::Debug + DefaultEq,
{
    cx.n += 1;
    let place = place_for(cx.n);
    let bound = T::FORMATTED_SIZE_DECIMAL;
    guard::set_crumb(format!("write default {ty} {vs} L={bound}").as_bytes());
    let w = write_default_w::<T>(&mut cx.arena, v, bound, place);
    bump(cx, "evals.default-api");
    if !w.zone_ok {
        viol(cx, "C09", "wrote-outside-slice", d, "default-api", ty, vs.clone(), b"", format!("canary next to the {bound}-byte buffer damaged"));
    }
    let out = match w.res {
        Ok(o) => o,
        Err(p) => {
            viol(cx, "C09", "panic-at-documented-bound", d, "default-api", ty, vs, b"", format!("L={bound} (FORMATTED_SIZE_DECIMAL): {p}"));
            return;
        },
    };
    if !w.at_start {
        viol(cx, "C09", "returned-slice-not-a-prefix", d, "default-api", ty, vs.clone(), &out, String::new());
    }
    if out.iter().any(|&b| b >= 0x80) {
        viol(cx, "C17", "non-ascii-output", d, "default-api", ty, vs.clone(), &out, String::new());
    }
    guard::set_crumb(format!("to_string {ty} {vs}").as_bytes());
    match report::catch(|| lexical::to_string(v)) {
        Ok(s) => {
            if s.as_bytes() != &out[..] {
                viol(cx, "C17", "to_string-differs-from-core", d, "default-api", ty, vs.clone(), &out, format!("to_string: {}", show(s.as_bytes())));
            }
            bump(cx, "c17.to_string-compared");
        },
        Err(p) => viol(cx, "C17", "to_string-panicked", d, "default-api", ty, vs.clone(), &out, p),
    }
    match report::catch(|| lexical_core::parse::<T>(&out)) {
        Ok(Ok(back)) => {
            if !back.same(&v) {
                viol(cx, "C08", "value-read-back-differently", d, "default-api", ty, vs.clone(), &out, format!("parsed back as {back:?}"));
            }
        },
        Ok(Err(e)) => viol(cx, "C08", "output-rejected-by-parser", d, "default-api", ty, vs.clone(), &out, format!("{e:?}")),
        Err(p) => viol(cx, "C08", "parser-panicked-on-output", d, "default-api", ty, vs.clone(), &out, p),
    }
    bump(cx, "c08.reparsed");
    // every shorter buffer
    for l in 0..bound {
        if l > out.len() + 1 && l + 1 < bound && cx.n % 5 != 0 {
            continue;
        }
        if cx.small && !(l == 0 || l + 1 == out.len() || l == out.len() || l + 1 == bound) {
            continue;
        }
        for pl in [guard::Place::Tail, guard::Place::Head] {
            if cx.small && pl == guard::Place::Head {
                continue;
            }
            guard::set_crumb(format!("write default {ty} {vs} L={l} {pl:?}").as_bytes());
            let ws = write_default_w::<T>(&mut cx.arena, v, l, pl);
            bump(cx, "c09.short-buffer-writes");
            if !ws.zone_ok {
                viol(cx, "C09", "wrote-outside-slice", d, "default-api", ty, vs.clone(), b"", format!("canary next to the {l}-byte buffer damaged"));
            }
            match ws.res {
                Ok(o) => {
                    bump(cx, "c09.short-buffer-succeeded");
                    if !ws.at_start || o.len() > l {
                        viol(cx, "C09", "returned-slice-not-a-prefix", d, "default-api", ty, vs.clone(), &o, format!("L={l}"));
                    }
                },
                Err(_) => bump(cx, "c09.short-buffer-panicked"),
            }
        }
    }
    cx.distinct += 1;
}

/// equality that treats NaN as equal to NaN
trait DefaultEq {
    fn same(&self, o: &Self) -> bool;
}
macro_rules! deq_int {
    ($($t:ty)*) => {$( impl DefaultEq for $t { fn same(&self, o: &Self) -> bool { self == o } } )*};
}
deq_int! { u8 u16 u32 u64 u128 usize i8 i16 i32 i64 i128 isize }
impl DefaultEq for f64 {
    fn same(&self, o: &Self) -> bool {
        self.to_bits() == o.to_bits() || (self.is_nan() && o.is_nan())
    }
}
impl DefaultEq for f32 {
    fn same(&self, o: &Self) -> bool {
        self.to_bits() == o.to_bits() || (self.is_nan() && o.is_nan())
    }
}

fn main() {
    let args = Args::parse();
    report::quiet_panics();
    guard::install();
    let rep = Report::new();
    let cfg = vharness::config_name();
    rep.note("config", cfg.clone());
    rep.note("profile", vharness::profile_name().to_string());
    rep.note("fmt_seed", FMT_SEED.to_string());
    let prop = args.get("prop").map(|s| s.to_string());
    let thorough = args.thorough();
    let small = args.get("small").is_some() || cfg!(miri);
    let replay_idx: Option<usize> = args.get("idx").map(|s| s.parse().unwrap());
    let replay_val = args.get("replay").map(|s| s.to_string());
    let replay_ty = args.get("type").unwrap_or("f64").to_string();
    let replay_spec = args.get("spec").map(WSpec::decode);
    let nfmt = args.get_u64("nfmt", 32) as usize;
    let default_api = args.get("defaultapi").is_some();
    let total = std::sync::Mutex::new(0u64);
    report::parallel(if replay_val.is_some() { 1 } else { args.threads }, |shard, nshards| {
        let mut cx = Cx { rep: &rep, cfg: cfg.clone(), prop: prop.clone(), counts: BTreeMap::new(), arena: Arena::new(1 << 13), n: shard as u64, distinct: 0, thorough, small, idx: 0, replaying: false };
        if default_api && replay_val.is_none() {
            run_default_api(&mut cx, args.seed, shard, nshards);
        }
        macro_rules! go {
            ($($i:literal)*) => {$(
                {
                    const IDX: usize = PART * 32 + $i;
                    let mine = match replay_idx { Some(r) => r == IDX && replay_val.is_some(), None => $i % nshards == shard && $i < nfmt && replay_val.is_none() };
                    if mine {
                        const FMT: u128 = fmt_of(IDX);
                        // what the enabled cargo features let the builder express (fields without a setter keep their defaults)
                        let d = vharness::fmttab::effective(&desc_of::<FMT>(IDX));
                        if !lexical_core::format_is_valid::<FMT>() {
                            rep.inconclusive(format!("sampled format #{IDX} {} is not valid for lexical: {:?}", d.name(), lexical_core::format_error::<FMT>()));
                        } else {
                            let rp = replay_val.as_deref().map(|v| (replay_ty.as_str(), v, replay_spec.as_ref().expect("spec=")));
                            run_format::<FMT>(&mut cx, &d, IDX, args.seed, rp);
                        }
                        bump(&mut cx, "formats");
                    }
                }
            )*};
        }
        go!(0 1 2 3 4 5 6 7 8 9 10 11 12 13 14 15 16 17 18 19 20 21 22 23 24 25 26 27 28 29 30 31);
        let _ = cx.replaying;
        rep.merge_counts(&cx.counts);
        *total.lock().unwrap() += cx.distinct;
    });
    rep.count("distinct_nontrivial", *total.lock().unwrap());
    args.finish(&rep);
}
