//! Compile-time number formats used by the executors.  FORMAT is a const generic in lexical, so
//! every format that a workload drives must be instantiated here.
use lexical_core::NumberFormatBuilder;

#[cfg(feature = "power-of-two")]
pub const fn radix_fmt(r: u8) -> u128 {
    NumberFormatBuilder::from_radix(r)
}
#[cfg(not(feature = "power-of-two"))]
pub const fn radix_fmt(_r: u8) -> u128 {
    NumberFormatBuilder::new().build_strict()
}

/// radices available in this build configuration
pub fn radices() -> Vec<u32> {
    let mut v = vec![10u32];
    if cfg!(feature = "radix") {
        v = (2..=36).collect();
    } else if cfg!(feature = "power-of-two") {
        v = vec![2, 4, 8, 10, 16, 32];
    }
    v
}

/// `radix_dispatch!(r, FMT, { body using const FMT: u128 })`
#[macro_export]
macro_rules! radix_dispatch {
    ($r:expr, $f:ident, $body:block) => {{
        macro_rules! arm {
            ($n:literal) => {{
                const $f: u128 = $crate::fmts::radix_fmt($n);
                $body
            }};
        }
        match $r {
            10 => arm!(10),
            #[cfg(feature = "power-of-two")]
            2 => arm!(2),
            #[cfg(feature = "power-of-two")]
            4 => arm!(4),
            #[cfg(feature = "power-of-two")]
            8 => arm!(8),
            #[cfg(feature = "power-of-two")]
            16 => arm!(16),
            #[cfg(feature = "power-of-two")]
            32 => arm!(32),
            #[cfg(feature = "radix")]
            3 => arm!(3),
            #[cfg(feature = "radix")]
            5 => arm!(5),
            #[cfg(feature = "radix")]
            6 => arm!(6),
            #[cfg(feature = "radix")]
            7 => arm!(7),
            #[cfg(feature = "radix")]
            9 => arm!(9),
            #[cfg(feature = "radix")]
            11 => arm!(11),
            #[cfg(feature = "radix")]
            12 => arm!(12),
            #[cfg(feature = "radix")]
            13 => arm!(13),
            #[cfg(feature = "radix")]
            14 => arm!(14),
            #[cfg(feature = "radix")]
            15 => arm!(15),
            #[cfg(feature = "radix")]
            17 => arm!(17),
            #[cfg(feature = "radix")]
            18 => arm!(18),
            #[cfg(feature = "radix")]
            19 => arm!(19),
            #[cfg(feature = "radix")]
            20 => arm!(20),
            #[cfg(feature = "radix")]
            21 => arm!(21),
            #[cfg(feature = "radix")]
            22 => arm!(22),
            #[cfg(feature = "radix")]
            23 => arm!(23),
            #[cfg(feature = "radix")]
            24 => arm!(24),
            #[cfg(feature = "radix")]
            25 => arm!(25),
            #[cfg(feature = "radix")]
            26 => arm!(26),
            #[cfg(feature = "radix")]
            27 => arm!(27),
            #[cfg(feature = "radix")]
            28 => arm!(28),
            #[cfg(feature = "radix")]
            29 => arm!(29),
            #[cfg(feature = "radix")]
            30 => arm!(30),
            #[cfg(feature = "radix")]
            31 => arm!(31),
            #[cfg(feature = "radix")]
            33 => arm!(33),
            #[cfg(feature = "radix")]
            34 => arm!(34),
            #[cfg(feature = "radix")]
            35 => arm!(35),
            #[cfg(feature = "radix")]
            36 => arm!(36),
            _ => panic!("radix not available in this configuration"),
        }
    }};
}
