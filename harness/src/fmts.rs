//! Compile-time number formats used by the executors.  FORMAT is a const generic in lexical, so
//! every format that a workload drives must be instantiated here.
use lexical_core::NumberFormatBuilder;

#[cfg(feature = "power-of-two")]
pub const fn radix_fmt(r: u8) -> u128 {
    NumberFormatBuilder::from_radix(r)
}
#[cfg(not(feature = "power-of-two"))]
pub const fn radix_fmt(_r: u8) -> u128 {
    NumberFormatBuilder::new().build_strict()
}

/// radices available in this build configuration
pub fn radices() -> Vec<u32> {
    let mut v = vec![10u32];
    if cfg!(feature = "radix") {
        v = (2..=36).collect();
    } else if cfg!(feature = "power-of-two") {
        v = vec![2, 4, 8, 10, 16, 32];
    }
    v
}

/// `radix_dispatch!(r, FMT, { body using const FMT: u128 })`
#[macro_export]
macro_rules! radix_dispatch {
    ($r:expr, $f:ident, $body:block) => {{
        macro_rules! arm {
            ($n:literal) => {{
                const $f: u128 = $crate::fmts::radix_fmt($n);
                $body
            }};
        }
        match $r {
            10 => arm!(10),
            #[cfg(feature = "power-of-two")]
            2 => arm!(2),
            #[cfg(feature = "power-of-two")]
            4 => arm!(4),
            #[cfg(feature = "power-of-two")]
            8 => arm!(8),
            #[cfg(feature = "power-of-two")]
            16 => arm!(16),
            #[cfg(feature = "power-of-two")]
            32 => arm!(32),
            #[cfg(feature = "radix")]
            3 => arm!(3),
            #[cfg(feature = "radix")]
            5 => arm!(5),
            #[cfg(feature = "radix")]
            6 => arm!(6),
            #[cfg(feature = "radix")]
            7 => arm!(7),
            #[cfg(feature = "radix")]
            9 => arm!(9),
            #[cfg(feature = "radix")]
            11 => arm!(11),
            #[cfg(feature = "radix")]
            12 => arm!(12),
            #[cfg(feature = "radix")]
            13 => arm!(13),
            #[cfg(feature = "radix")]
            14 => arm!(14),
            #[cfg(feature = "radix")]
            15 => arm!(15),
            #[cfg(feature = "radix")]
            17 => arm!(17),
            #[cfg(feature = "radix")]
            18 => arm!(18),
            #[cfg(feature = "radix")]
            19 => arm!(19),
            #[cfg(feature = "radix")]
            20 => arm!(20),
            #[cfg(feature = "radix")]
            21 => arm!(21),
            #[cfg(feature = "radix")]
            22 => arm!(22),
            #[cfg(feature = "radix")]
            23 => arm!(23),
            #[cfg(feature = "radix")]
            24 => arm!(24),
            #[cfg(feature = "radix")]
            25 => arm!(25),
            #[cfg(feature = "radix")]
            26 => arm!(26),
            #[cfg(feature = "radix")]
            27 => arm!(27),
            #[cfg(feature = "radix")]
            28 => arm!(28),
            #[cfg(feature = "radix")]
            29 => arm!(29),
            #[cfg(feature = "radix")]
            30 => arm!(30),
            #[cfg(feature = "radix")]
            31 => arm!(31),
            #[cfg(feature = "radix")]
            33 => arm!(33),
            #[cfg(feature = "radix")]
            34 => arm!(34),
            #[cfg(feature = "radix")]
            35 => arm!(35),
            #[cfg(feature = "radix")]
            36 => arm!(36),
            _ => panic!("radix not available in this configuration"),
        }
    }};
}

/// float format with explicit mantissa radix / exponent base / exponent-digit radix
#[cfg(feature = "power-of-two")]
pub const fn float_fmt(r: u8, b: u8, x: u8) -> u128 {
    NumberFormatBuilder::new()
        .mantissa_radix(r)
        .exponent_base(core::num::NonZeroU8::new(b))
        .exponent_radix(core::num::NonZeroU8::new(x))
        .build_strict()
}

/// (radix, base, exponent radix) triples compiled into the float executors for this configuration
pub fn float_triples() -> Vec<(u32, u32, u32)> {
    let mut v = Vec::new();
    macro_rules! push {
        ($r:literal, $b:literal, $x:literal) => {
            v.push(($r, $b, $x));
        };
    }
    crate::float_formats!(push);
    v
}

/// `float_formats!(mac)` expands `mac!(r, b, x)` for every compiled (radix, base, exp radix)
#[cfg(feature = "radix")]
#[macro_export]
macro_rules! float_formats {
    ($m:ident) => {
        $m!(2, 2, 2); $m!(3, 3, 3); $m!(4, 4, 4); $m!(5, 5, 5); $m!(6, 6, 6); $m!(7, 7, 7); $m!(8, 8, 8); $m!(9, 9, 9);
        $m!(11, 11, 11); $m!(12, 12, 12); $m!(13, 13, 13); $m!(14, 14, 14); $m!(15, 15, 15); $m!(16, 16, 16); $m!(17, 17, 17);
        $m!(18, 18, 18); $m!(19, 19, 19); $m!(20, 20, 20); $m!(21, 21, 21); $m!(22, 22, 22); $m!(23, 23, 23); $m!(24, 24, 24);
        $m!(25, 25, 25); $m!(26, 26, 26); $m!(27, 27, 27); $m!(28, 28, 28); $m!(29, 29, 29); $m!(30, 30, 30); $m!(31, 31, 31);
        $m!(32, 32, 32); $m!(33, 33, 33); $m!(34, 34, 34); $m!(35, 35, 35); $m!(36, 36, 36);
        $m!(2, 2, 10); $m!(3, 3, 10); $m!(16, 16, 10); $m!(36, 36, 10); $m!(12, 12, 7);
        $m!(4, 2, 10); $m!(8, 2, 10); $m!(16, 2, 10); $m!(32, 2, 10); $m!(16, 4, 10); $m!(16, 2, 16); $m!(16, 4, 4); $m!(8, 2, 2);
    };
}
#[cfg(all(feature = "power-of-two", not(feature = "radix")))]
#[macro_export]
macro_rules! float_formats {
    ($m:ident) => {
        $m!(2, 2, 2); $m!(4, 4, 4); $m!(8, 8, 8); $m!(16, 16, 16); $m!(32, 32, 32);
        $m!(2, 2, 10); $m!(16, 16, 10); $m!(8, 8, 10); $m!(32, 32, 10);
        $m!(4, 2, 10); $m!(8, 2, 10); $m!(16, 2, 10); $m!(32, 2, 10); $m!(16, 4, 10); $m!(16, 2, 16); $m!(16, 4, 4); $m!(8, 2, 2);
    };
}
#[cfg(not(feature = "power-of-two"))]
#[macro_export]
macro_rules! float_formats {
    ($m:ident) => {};
}
