//! Event sink shared by all monitors: counters, samples, violations, inconclusives; JSON out.
use std::collections::BTreeMap;
use std::sync::Mutex;

pub fn esc(s: &str) -> String {
    let mut o = String::with_capacity(s.len() + 2);
    for c in s.chars() {
        match c {
            '"' => o.push_str("\\\""),
            '\\' => o.push_str("\\\\"),
            '\n' => o.push_str("\\n"),
            '\r' => o.push_str("\\r"),
            '\t' => o.push_str("\\t"),
            c if (c as u32) < 0x20 => o.push_str(&format!("\\u{:04x}", c as u32)),
            c => o.push(c),
        }
    }
    o
}

/// printable rendering of raw bytes (always valid UTF-8, reversible): \xNN for non-printables
pub fn show(bytes: &[u8]) -> String {
    let mut o = String::new();
    for &b in bytes {
        if (0x20..0x7f).contains(&b) && b != b'\\' {
            o.push(b as char);
        } else {
            o.push_str(&format!("\\x{:02x}", b));
        }
    }
    o
}
pub fn unshow(s: &str) -> Vec<u8> {
    let b = s.as_bytes();
    let mut o = Vec::new();
    let mut i = 0;
    while i < b.len() {
        if b[i] == b'\\' && i + 3 < b.len() + 0 && b[i + 1] == b'x' {
            let h = std::str::from_utf8(&b[i + 2..i + 4]).unwrap();
            o.push(u8::from_str_radix(h, 16).unwrap());
            i += 4;
        } else {
            o.push(b[i]);
            i += 1;
        }
    }
    o
}

#[derive(Default)]
pub struct Inner {
    pub counters: BTreeMap<String, u64>,
    pub samples: Vec<String>,
    /// signature -> (count, first few details)
    pub violations: BTreeMap<String, (u64, Vec<String>)>,
    pub inconclusive: Vec<String>,
    pub notes: BTreeMap<String, String>,
}

pub struct Report {
    pub inner: Mutex<Inner>,
    pub max_details: usize,
    pub max_samples: usize,
}

impl Report {
    pub fn new() -> Report {
        Report { inner: Mutex::new(Inner::default()), max_details: 8, max_samples: 24 }
    }
    pub fn count(&self, key: &str, n: u64) {
        let mut g = self.inner.lock().unwrap();
        *g.counters.entry(key.to_string()).or_insert(0) += n;
    }
    pub fn merge_counts(&self, local: &BTreeMap<&'static str, u64>) {
        let mut g = self.inner.lock().unwrap();
        for (k, v) in local {
            *g.counters.entry(k.to_string()).or_insert(0) += *v;
        }
    }
    pub fn merge_counts_s(&self, local: &BTreeMap<String, u64>) {
        let mut g = self.inner.lock().unwrap();
        for (k, v) in local {
            *g.counters.entry(k.clone()).or_insert(0) += *v;
        }
    }
    pub fn sample(&self, s: String) {
        let mut g = self.inner.lock().unwrap();
        if g.samples.len() < self.max_samples {
            g.samples.push(s);
        }
    }
    /// `sig`: stable signature (call site / class of failure); `detail`: JSON object text with the replayable case
    pub fn violation(&self, sig: &str, detail: String) {
        let mut g = self.inner.lock().unwrap();
        let e = g.violations.entry(sig.to_string()).or_insert((0, Vec::new()));
        e.0 += 1;
        if e.1.len() < self.max_details {
            e.1.push(detail);
        }
    }
    pub fn inconclusive(&self, s: String) {
        let mut g = self.inner.lock().unwrap();
        if g.inconclusive.len() < 50 {
            g.inconclusive.push(s);
        }
    }
    pub fn note(&self, k: &str, v: String) {
        self.inner.lock().unwrap().notes.insert(k.to_string(), v);
    }
    pub fn n_violations(&self) -> u64 {
        self.inner.lock().unwrap().violations.values().map(|v| v.0).sum()
    }
    pub fn to_json(&self) -> String {
        let g = self.inner.lock().unwrap();
        let mut o = String::from("{\n \"counters\": {");
        o.push_str(&g.counters.iter().map(|(k, v)| format!("\"{}\": {}", esc(k), v)).collect::<Vec<_>>().join(", "));
        o.push_str("},\n \"notes\": {");
        o.push_str(&g.notes.iter().map(|(k, v)| format!("\"{}\": \"{}\"", esc(k), esc(v))).collect::<Vec<_>>().join(", "));
        o.push_str("},\n \"samples\": [");
        o.push_str(&g.samples.iter().map(|s| format!("\"{}\"", esc(s))).collect::<Vec<_>>().join(", "));
        o.push_str("],\n \"inconclusive\": [");
        o.push_str(&g.inconclusive.iter().map(|s| format!("\"{}\"", esc(s))).collect::<Vec<_>>().join(", "));
        o.push_str("],\n \"violations\": [");
        let mut first = true;
        for (sig, (n, details)) in g.violations.iter() {
            if !first {
                o.push_str(",");
            }
            first = false;
            o.push_str(&format!("\n  {{\"sig\": \"{}\", \"count\": {}, \"details\": [{}]}}", esc(sig), n, details.join(", ")));
        }
        o.push_str("]\n}\n");
        o
    }
}

/// tiny JSON object builder for violation details: obj(&[("k","v")]) with all values as strings
pub fn obj(kv: &[(&str, String)]) -> String {
    let mut o = String::from("{");
    o.push_str(&kv.iter().map(|(k, v)| format!("\"{}\": \"{}\"", esc(k), esc(v))).collect::<Vec<_>>().join(", "));
    o.push('}');
    o
}

/// command line: --tier quick|thorough --seed N --out PATH --threads N [--replay STR] [extra k=v]
pub struct Args {
    pub tier: String,
    pub seed: u64,
    pub out: Option<String>,
    pub threads: usize,
    pub extra: BTreeMap<String, String>,
}
impl Args {
    pub fn parse() -> Args {
        let mut a = Args { tier: "quick".into(), seed: 0, out: None, threads: 16, extra: BTreeMap::new() };
        let v: Vec<String> = std::env::args().collect();
        let mut i = 1;
        while i < v.len() {
            match v[i].as_str() {
                "--tier" => {
                    a.tier = v[i + 1].clone();
                    i += 2;
                },
                "--seed" => {
                    a.seed = v[i + 1].parse().expect("seed");
                    i += 2;
                },
                "--out" => {
                    a.out = Some(v[i + 1].clone());
                    i += 2;
                },
                "--threads" => {
                    a.threads = v[i + 1].parse().expect("threads");
                    i += 2;
                },
                s => {
                    if let Some((k, val)) = s.split_once('=') {
                        a.extra.insert(k.trim_start_matches("--").to_string(), val.to_string());
                    } else {
                        a.extra.insert(s.trim_start_matches("--").to_string(), "1".to_string());
                    }
                    i += 1;
                },
            }
        }
        if cfg!(miri) {
            a.threads = 1;
        }
        if let Some(n) = a.extra.get("mshards") {
            let n: usize = n.parse().expect("mshards");
            let i: usize = a.extra.get("mshard").map(|s| s.parse().expect("mshard")).unwrap_or(0);
            assert!(i < n);
            MSHARDS.store(n, std::sync::atomic::Ordering::Relaxed);
            MSHARD.store(i, std::sync::atomic::Ordering::Relaxed);
            a.threads = 1;
        }
        a
    }
    pub fn thorough(&self) -> bool {
        self.tier == "thorough"
    }
    pub fn get(&self, k: &str) -> Option<&str> {
        self.extra.get(k).map(|s| s.as_str())
    }
    pub fn get_u64(&self, k: &str, default: u64) -> u64 {
        self.get(k).map(|s| s.parse().expect("numeric arg")).unwrap_or(default)
    }
    pub fn finish(&self, rep: &Report) -> ! {
        // M-path: which code paths of the library decided the results of this run (hooks in /repo, --cfg lexical_verif)
        #[cfg(lexical_verif)]
        {
            let snap = lexical_util::verif::snapshot();
            for (i, n) in snap.iter().enumerate() {
                if !lexical_util::verif::NAMES[i].is_empty() {
                    rep.count(&format!("path.{}", lexical_util::verif::NAMES[i]), *n);
                }
            }
        }
        let js = rep.to_json();
        match &self.out {
            Some(p) => std::fs::write(p, js).expect("write out"),
            None => print!("{js}"),
        }
        std::process::exit(0)
    }
}

/// run `f(shard, nshards)` on `threads` threads
/// process-level sharding for single-threaded runs (Miri, valgrind): `mshard=i mshards=n` makes this process
/// execute exactly the work that thread i of n would execute
pub static MSHARD: std::sync::atomic::AtomicUsize = std::sync::atomic::AtomicUsize::new(0);
pub static MSHARDS: std::sync::atomic::AtomicUsize = std::sync::atomic::AtomicUsize::new(1);

pub fn parallel<F: Fn(usize, usize) + Sync>(threads: usize, f: F) {
    if threads <= 1 {
        f(MSHARD.load(std::sync::atomic::Ordering::Relaxed), MSHARDS.load(std::sync::atomic::Ordering::Relaxed));
        crate::guard::idle();
        return;
    }
    crate::guard::idle();
    std::thread::scope(|s| {
        for t in 0..threads {
            let f = &f;
            std::thread::Builder::new()
                .stack_size(16 << 20)
                .spawn_scoped(s, move || {
                    f(t, threads);
                    crate::guard::idle();
                })
                .unwrap();
        }
    });
}

thread_local! {
    static IN_CATCH: std::cell::Cell<bool> = const { std::cell::Cell::new(false) };
}

/// Silence the panic printer for panics raised inside `catch` (monitors record those themselves);
/// a panic of the harness itself is printed as `HARNESS-PANIC` (the run is then inconclusive).
pub fn quiet_panics() {
    std::panic::set_hook(Box::new(|info| {
        if !IN_CATCH.with(|c| c.get()) {
            eprintln!("HARNESS-PANIC {info}");
        }
    }));
}

/// run `f`, returning Err(message) if it panicked
pub fn catch<R>(f: impl FnOnce() -> R) -> Result<R, String> {
    let prev = IN_CATCH.with(|c| c.replace(true));
    let res = std::panic::catch_unwind(std::panic::AssertUnwindSafe(f));
    IN_CATCH.with(|c| c.set(prev));
    // return event: the thread is no longer inside the library (M-return stops watching it)
    crate::guard::idle();
    match res {
        Ok(r) => Ok(r),
        Err(e) => Err(if let Some(s) = e.downcast_ref::<&str>() {
            s.to_string()
        } else if let Some(s) = e.downcast_ref::<String>() {
            s.clone()
        } else {
            "non-string panic".to_string()
        }),
    }
}
