//! M-guard / M-canary: electric-fence placement of input slices and output buffers.
//!
//! Layout of one arena:  [PROT_NONE page][ data pages ... ][PROT_NONE page]
//! A slice is placed flush against the trailing guard (over-read / overrun
//! detector) or flush against the leading guard (underrun detector).  A SIGSEGV
//! whose fault address lies in one of our guard pages is reported as
//! `GUARD-HIT` with the breadcrumb (case description) that was published before
//! the call; any other fault is reported as `HARNESS-CRASH` (inconclusive).
//!
//! Under Miri (no mmap, no signals) exact-size heap allocations are used and
//! Miri itself is the monitor.

use std::sync::atomic::{AtomicUsize, Ordering};

pub const PAGE: usize = 4096;
/// width of the canary zone kept next to an output slice on its unguarded side
pub const ZONE: usize = 96;

#[derive(Clone, Copy, PartialEq, Eq, Debug)]
pub enum Place {
    /// end of slice touches the trailing guard page
    Tail,
    /// start of slice touches the leading guard page
    Head,
}

// registry of guard ranges for the signal handler (fixed-size, lock-free)
const MAX_ARENAS: usize = 256;
static N_ARENAS: AtomicUsize = AtomicUsize::new(0);
static mut RANGES: [(usize, usize); MAX_ARENAS * 2] = [(0, 0); MAX_ARENAS * 2];

// per-thread breadcrumb: a fixed buffer the handler can read
pub const CRUMB_LEN: usize = 512;
thread_local! {
    static CRUMB: std::cell::UnsafeCell<[u8; CRUMB_LEN]> = const { std::cell::UnsafeCell::new([0u8; CRUMB_LEN]) };
}
thread_local! {
    static CRUMB_PTR: std::cell::Cell<*mut u8> = const { std::cell::Cell::new(std::ptr::null_mut()) };
}
// The handler finds the current thread's crumb through a #[thread_local]-free path: we store the
// pointer in a static table indexed by a small per-thread id obtained from gettid().
const MAX_THREADS: usize = 512;
static mut TID_TABLE: [(i64, usize); MAX_THREADS] = [(0, 0); MAX_THREADS];
static N_THREADS: AtomicUsize = AtomicUsize::new(0);

#[cfg(not(miri))]
fn gettid() -> i64 {
    unsafe { libc::syscall(libc::SYS_gettid) as i64 }
}

// M-return (the "terminates" clause): time of each thread's last call event, in ms since start (0 = idle).
// A watchdog thread reports a call that has not returned after HANG_MS as `NO-RETURN` with its breadcrumb.
static HEART: [std::sync::atomic::AtomicU64; MAX_THREADS] = [const { std::sync::atomic::AtomicU64::new(0) }; MAX_THREADS];
thread_local! {
    static CRUMB_IDX: std::cell::Cell<usize> = const { std::cell::Cell::new(usize::MAX) };
}
#[cfg(not(miri))]
fn now_ms() -> u64 {
    static START: std::sync::OnceLock<std::time::Instant> = std::sync::OnceLock::new();
    START.get_or_init(std::time::Instant::now).elapsed().as_millis() as u64 + 1
}

/// Publish what is about to be executed (call event) so that a crash or a hang is attributable.
pub fn set_crumb(s: &[u8]) {
    CRUMB.with(|c| unsafe {
        let buf = &mut *c.get();
        let n = s.len().min(CRUMB_LEN - 1);
        buf[..n].copy_from_slice(&s[..n]);
        buf[n] = 0;
        #[cfg(not(miri))]
        CRUMB_PTR.with(|p| {
            if p.get().is_null() {
                p.set(buf.as_mut_ptr());
                let idx = N_THREADS.fetch_add(1, Ordering::SeqCst);
                if idx < MAX_THREADS {
                    let t = std::ptr::addr_of_mut!(TID_TABLE) as *mut (i64, usize);
                    t.add(idx).write((gettid(), buf.as_mut_ptr() as usize));
                    CRUMB_IDX.with(|i| i.set(idx));
                }
            }
        });
    });
    #[cfg(not(miri))]
    CRUMB_IDX.with(|i| {
        if i.get() < MAX_THREADS {
            HEART[i.get()].store(now_ms(), Ordering::Relaxed);
        }
    });
}
/// print `<tag> case=<current breadcrumb>` immediately (unbuffered), for events that must survive a later crash
pub fn report_now(tag: &str) {
    CRUMB.with(|c| {
        let buf = unsafe { &*c.get() };
        let n = buf.iter().position(|&b| b == 0).unwrap_or(CRUMB_LEN);
        let line = format!("\n{tag} case={}\n", String::from_utf8_lossy(&buf[..n]));
        use std::io::Write;
        let _ = std::io::stdout().write_all(line.as_bytes());
        let _ = std::io::stdout().flush();
    });
}
/// cheap call event for hot loops: a static tag and one number (no formatting)
pub fn set_crumb_bits(tag: &'static str, bits: u64) {
    let mut b = [0u8; 64];
    let t = tag.as_bytes();
    let n = t.len().min(40);
    b[..n].copy_from_slice(&t[..n]);
    b[n] = b' ';
    b[n + 1] = b'0';
    b[n + 2] = b'x';
    for k in 0..16 {
        let d = ((bits >> (60 - 4 * k)) & 15) as u8;
        b[n + 3 + k] = if d < 10 { b'0' + d } else { b'a' + d - 10 };
    }
    set_crumb(&b[..n + 19]);
}
/// the calling thread is between calls into the library (generation, judging, waiting): not watched
pub fn idle() {
    CRUMB_IDX.with(|i| {
        if i.get() < MAX_THREADS {
            HEART[i.get()].store(0, Ordering::Relaxed);
        }
    });
}

#[cfg(not(miri))]
unsafe fn wr(s: &[u8]) {
    libc::write(1, s.as_ptr() as *const libc::c_void, s.len());
}
#[cfg(not(miri))]
unsafe fn wr_hex(mut v: usize) {
    let mut buf = [0u8; 18];
    let mut i = 18;
    loop {
        i -= 1;
        let d = (v & 15) as u8;
        buf[i] = if d < 10 { b'0' + d } else { b'a' + d - 10 };
        v >>= 4;
        if v == 0 {
            break;
        }
    }
    wr(&buf[i..]);
}

/// M-return watchdog thread: a call that has not returned HANG_MS after its call event
#[cfg(not(miri))]
fn start_watchdog() {
    let limit: u64 = std::env::var("VERIF_HANG_MS").ok().and_then(|s| s.parse().ok()).unwrap_or(60_000);
    std::thread::spawn(move || loop {
        std::thread::sleep(std::time::Duration::from_millis(500));
        let now = now_ms();
        let nt = N_THREADS.load(Ordering::SeqCst).min(MAX_THREADS);
        for i in 0..nt {
            let t = HEART[i].load(Ordering::Relaxed);
            if t != 0 && now > t + limit {
                unsafe {
                    wr(b"\nNO-RETURN after ms=0x");
                    wr_hex((now - t) as usize);
                    wr(b" case=");
                    let tab = std::ptr::addr_of!(TID_TABLE) as *const (i64, usize);
                    let (_, p) = tab.add(i).read();
                    if p != 0 {
                        let p = p as *const u8;
                        let mut len = 0;
                        while len < CRUMB_LEN && *p.add(len) != 0 {
                            len += 1;
                        }
                        wr(std::slice::from_raw_parts(p, len));
                    }
                    wr(b"\n");
                    libc::_exit(76);
                }
            }
        }
    });
}

// Guarded arenas (mmap + PROT_NONE pages).  With `--cfg verif_heap` (ASan and memcheck builds) and under Miri the
// arena hands out exact-size heap allocations instead, so that the tool's own red zones / bounds do the watching.
#[cfg(not(any(miri, verif_heap)))]
mod imp {
    use super::*;

    extern "C" fn on_segv(_sig: libc::c_int, info: *mut libc::siginfo_t, _ctx: *mut libc::c_void) {
        unsafe {
            let addr = (*info).si_addr() as usize;
            let n = N_ARENAS.load(Ordering::SeqCst).min(MAX_ARENAS) * 2;
            let ranges = std::ptr::addr_of!(RANGES) as *const (usize, usize);
            let mut ours = false;
            for i in 0..n {
                let (lo, hi) = ranges.add(i).read();
                if addr >= lo && addr < hi {
                    ours = true;
                }
            }
            // a fault outside the guard pages while this thread is inside a call into the library (between its call
            // event and its return event) is a wild access by the library (e.g. an index that wrapped); any other
            // fault is the harness's own problem
            let tid = gettid();
            let nt = N_THREADS.load(Ordering::SeqCst).min(MAX_THREADS);
            let t = std::ptr::addr_of!(TID_TABLE) as *const (i64, usize);
            let mut in_call = false;
            for i in 0..nt {
                let (id, _) = t.add(i).read();
                if id == tid && HEART[i].load(Ordering::Relaxed) != 0 {
                    in_call = true;
                }
            }
            wr(if ours {
                b"\nGUARD-HIT addr=0x"
            } else if in_call {
                b"\nWILD-ACCESS addr=0x"
            } else {
                b"\nHARNESS-CRASH addr=0x"
            });
            wr_hex(addr);
            wr(b" case=");
            for i in 0..nt {
                let (id, p) = t.add(i).read();
                if id == tid && p != 0 {
                    let p = p as *const u8;
                    let mut len = 0;
                    while len < CRUMB_LEN && *p.add(len) != 0 {
                        len += 1;
                    }
                    wr(std::slice::from_raw_parts(p, len));
                }
            }
            wr(b"\n");
            libc::_exit(if ours {
                77
            } else if in_call {
                75
            } else {
                78
            });
        }
    }

    pub fn install() {
        unsafe {
            // alternate stack so that stack overflows are reported too
            let ss_size = 1 << 16;
            let stk = libc::mmap(
                std::ptr::null_mut(),
                ss_size,
                libc::PROT_READ | libc::PROT_WRITE,
                libc::MAP_PRIVATE | libc::MAP_ANONYMOUS,
                -1,
                0,
            );
            let ss = libc::stack_t { ss_sp: stk, ss_flags: 0, ss_size };
            libc::sigaltstack(&ss, std::ptr::null_mut());
            let mut sa: libc::sigaction = std::mem::zeroed();
            sa.sa_sigaction = on_segv as usize;
            sa.sa_flags = libc::SA_SIGINFO | libc::SA_ONSTACK;
            libc::sigemptyset(&mut sa.sa_mask);
            libc::sigaction(libc::SIGSEGV, &sa, std::ptr::null_mut());
            libc::sigaction(libc::SIGBUS, &sa, std::ptr::null_mut());
        }
        start_watchdog();
    }

    pub struct Arena {
        base: *mut u8,
        data_len: usize, // multiple of PAGE
    }
    unsafe impl Send for Arena {}

    impl Arena {
        pub fn new(max_len: usize) -> Arena {
            let data_len = ((max_len + PAGE - 1) / PAGE).max(1) * PAGE;
            unsafe {
                let total = data_len + 2 * PAGE;
                let base = libc::mmap(
                    std::ptr::null_mut(),
                    total,
                    libc::PROT_READ | libc::PROT_WRITE,
                    libc::MAP_PRIVATE | libc::MAP_ANONYMOUS,
                    -1,
                    0,
                ) as *mut u8;
                assert!(base as isize != -1, "mmap failed");
                libc::mprotect(base as *mut libc::c_void, PAGE, libc::PROT_NONE);
                libc::mprotect(base.add(PAGE + data_len) as *mut libc::c_void, PAGE, libc::PROT_NONE);
                let idx = N_ARENAS.fetch_add(1, Ordering::SeqCst);
                assert!(idx < MAX_ARENAS, "too many arenas");
                let r = std::ptr::addr_of_mut!(RANGES) as *mut (usize, usize);
                r.add(idx * 2).write((base as usize, base as usize + PAGE));
                r.add(idx * 2 + 1).write((base as usize + PAGE + data_len, base as usize + total));
                Arena { base, data_len }
            }
        }
        pub fn capacity(&self) -> usize {
            self.data_len
        }
        /// A slice of `len` bytes placed as requested.  The returned slice borrows the arena.
        pub fn slice(&mut self, len: usize, place: Place) -> &mut [u8] {
            assert!(len <= self.data_len);
            unsafe {
                let start = match place {
                    Place::Head => self.base.add(PAGE),
                    Place::Tail => self.base.add(PAGE + self.data_len - len),
                };
                std::slice::from_raw_parts_mut(start, len)
            }
        }
        /// M-canary: the mapped bytes next to a slice on the side that has no guard page
        /// (up to ZONE of them).  Returns (pointer, length).
        fn zone(&self, len: usize, place: Place) -> (*mut u8, usize) {
            let n = (self.data_len - len).min(ZONE);
            unsafe {
                match place {
                    Place::Head => (self.base.add(PAGE + len), n),
                    Place::Tail => (self.base.add(PAGE + self.data_len - len - n), n),
                }
            }
        }
        pub fn arm_zone(&mut self, len: usize, place: Place, tag: u8) {
            let (p, n) = self.zone(len, place);
            for i in 0..n {
                unsafe { p.add(i).write(canary(tag ^ 0x35, i)) };
            }
        }
        /// true when every canary byte next to the slice is intact
        pub fn zone_intact(&self, len: usize, place: Place, tag: u8) -> bool {
            let (p, n) = self.zone(len, place);
            (0..n).all(|i| unsafe { p.add(i).read() } == canary(tag ^ 0x35, i))
        }
    }
    impl Drop for Arena {
        fn drop(&mut self) {
            // arenas live for the thread's lifetime; ranges stay registered (harmless), memory is unmapped
            // only at process exit to keep the handler's table valid.
        }
    }
}

#[cfg(any(miri, verif_heap))]
mod imp {
    use super::*;
    pub fn install() {
        #[cfg(not(miri))]
        start_watchdog();
    }
    pub struct Arena {
        buf: Vec<u8>,
        cap: usize,
    }
    impl Arena {
        pub fn new(max_len: usize) -> Arena {
            Arena { buf: Vec::new(), cap: max_len }
        }
        pub fn capacity(&self) -> usize {
            self.cap
        }
        pub fn slice(&mut self, len: usize, _place: Place) -> &mut [u8] {
            // exact-size fresh allocation: Miri checks bounds and initialisation itself
            self.buf = vec![0u8; len];
            &mut self.buf[..]
        }
        pub fn peek(&self) -> &[u8] {
            &self.buf[..]
        }
        pub fn arm_zone(&mut self, _len: usize, _place: Place, _tag: u8) {}
        pub fn zone_intact(&self, _len: usize, _place: Place, _tag: u8) -> bool {
            true
        }
    }
}

pub use imp::{install, Arena};

impl Arena {
    /// the slice handed out by the last `slice`/`output` call with the same arguments (contents untouched)
    pub fn slice_again(&mut self, len: usize, place: Place) -> &[u8] {
        #[cfg(not(any(miri, verif_heap)))]
        {
            &*self.slice(len, place)
        }
        #[cfg(any(miri, verif_heap))]
        {
            let _ = place;
            &self.peek()[..len]
        }
    }
    /// copy `data` into a guarded slice
    pub fn input(&mut self, data: &[u8], place: Place) -> &[u8] {
        let s = self.slice(data.len(), place);
        s.copy_from_slice(data);
        &*s
    }
    /// output buffer of `len` bytes filled with a canary pattern derived from `tag`
    pub fn output(&mut self, len: usize, place: Place, tag: u8) -> &mut [u8] {
        let s = self.slice(len, place);
        for (i, b) in s.iter_mut().enumerate() {
            *b = canary(tag, i);
        }
        s
    }
}

#[inline]
pub fn canary(tag: u8, i: usize) -> u8 {
    // never an ASCII digit/letter pattern that a writer would plausibly produce at that position
    0x80 | ((tag as usize).wrapping_mul(31).wrapping_add(i.wrapping_mul(7)) as u8 & 0x7f)
}

/// deliberately read one byte past a guarded slice: proves the instrumentation is live (used by `selftest --guard-live`)
pub fn deliberate_overread() -> u8 {
    let mut a = Arena::new(64);
    set_crumb(b"deliberate-overread");
    let s = a.input(b"12345678", Place::Tail);
    unsafe { std::ptr::read_volatile(s.as_ptr().add(s.len())) }
}
