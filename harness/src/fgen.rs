//! Generator of float-literal workloads for any radix: boundary-targeted
//! (halfway points of every binade, limits of the fast paths, long inputs,
//! extreme exponents) plus seeded random.  Generation is independent of the
//! oracle: the oracle re-reads the emitted bytes.

use crate::big::Big;
use crate::oracle::Kind;
use crate::rng::Rng;

#[derive(Clone, Copy, Debug)]
pub struct Spec {
    pub radix: u32,
    pub base: u32,
    pub exp_radix: u32,
    pub point: u8,
    pub exp_char: u8,
}
impl Spec {
    pub const DECIMAL: Spec = Spec { radix: 10, base: 10, exp_radix: 10, point: b'.', exp_char: b'e' };
    /// exponent-base steps per mantissa digit (1 unless mixed: radix = base^k)
    pub fn step(&self) -> i64 {
        let mut k = 0;
        let mut t = 1u32;
        while t < self.radix {
            t *= self.base;
            k += 1;
        }
        assert_eq!(t, self.radix);
        k
    }
    pub fn name(&self) -> String {
        format!("r{}b{}x{}", self.radix, self.base, self.exp_radix)
    }
}

pub fn digit_char(d: u8) -> u8 {
    if d < 10 {
        b'0' + d
    } else {
        b'A' + d - 10
    }
}

/// floor(mant * 2^p2 * radix^k) and whether that was exact
pub fn scaled_floor(mant: &Big, p2: i64, radix: u32, k: i64) -> (Big, bool) {
    let mut num = mant.clone();
    if k > 0 {
        num = num.mul(&Big::pow(radix, k as u64));
    }
    if p2 > 0 {
        num = num.shl(p2 as u64);
    }
    let mut exact = true;
    if k < 0 {
        // repeated small division
        let mut chunk = radix as u64;
        let mut c = 1i64;
        while chunk * (radix as u64) <= u32::MAX as u64 {
            chunk *= radix as u64;
            c += 1;
        }
        let mut j = -k;
        while j >= c {
            if num.divrem_small(chunk as u32) != 0 {
                exact = false;
            }
            j -= c;
        }
        for _ in 0..j {
            if num.divrem_small(radix) != 0 {
                exact = false;
            }
        }
    }
    if p2 < 0 {
        let (q, sticky) = num.shr_sticky((-p2) as u64);
        num = q;
        if sticky {
            exact = false;
        }
    }
    (num, exact)
}

/// digits (values) of the n-digit floor of mant*2^p2 in `radix`: returns (digits, k, exact) with
/// value ~= digits * radix^-k
pub fn floor_digits(mant: &Big, p2: i64, radix: u32, n: usize) -> (Vec<u8>, i64, bool) {
    let l2 = (radix as f64).log2();
    let lg = mant.bit_length() as f64 + p2 as f64;
    let mut k = n as i64 - (lg / l2).floor() as i64 - 1;
    for _ in 0..6 {
        let (f, exact) = scaled_floor(mant, p2, radix, k);
        let d = f.to_digits(radix);
        let len = if f.is_zero() { 0 } else { d.len() };
        if len == n {
            return (d, k, exact);
        }
        if len < n {
            k += (n - len) as i64;
        } else {
            k -= (len - n) as i64;
        }
    }
    let (f, exact) = scaled_floor(mant, p2, radix, k);
    (f.to_digits(radix), k, exact)
}

/// digit-vector + 1 (may grow by one digit)
pub fn incr(digits: &[u8], radix: u32) -> Vec<u8> {
    let mut d = digits.to_vec();
    let mut i = d.len();
    loop {
        if i == 0 {
            d.insert(0, 1);
            return d;
        }
        i -= 1;
        if (d[i] as u32) + 1 < radix {
            d[i] += 1;
            return d;
        }
        d[i] = 0;
    }
}
/// digit-vector - 1 (requires > 0)
pub fn decr(digits: &[u8], radix: u32) -> Vec<u8> {
    let mut d = digits.to_vec();
    let mut i = d.len();
    loop {
        if i == 0 {
            return d;
        }
        i -= 1;
        if d[i] > 0 {
            d[i] -= 1;
            return d;
        }
        d[i] = (radix - 1) as u8;
    }
}

#[derive(Clone, Copy, Debug, Default)]
pub struct Style {
    /// number of digits before the point (clamped to the digit count); usize::MAX = no point at all
    pub int_len: usize,
    pub lead_zeros: usize,
    /// zeros between the point and the digits when int_len == 0
    pub frac_zeros: usize,
    pub trail_zeros: usize,
    pub sign: u8,     // 0 none, b'+', b'-'
    pub exp_plus: bool,
    pub exp_upper: bool,
    pub exp_lead_zeros: usize,
    pub omit_zero_exp: bool,
    /// spelling of digits above 9: 0 upper case, 1 lower case, otherwise mixed (pattern seeded by the value)
    pub letter_case: u8,
}

/// digit character in the style's letter case (position-dependent for the mixed style)
fn styled_digit(d: u8, st: &Style, pos: usize) -> u8 {
    let c = digit_char(d);
    match st.letter_case {
        0 => c,
        1 => c.to_ascii_lowercase(),
        k => {
            if (pos as u64).wrapping_mul(0x9E3779B97F4A7C15).wrapping_add((k as u64).wrapping_mul(0x2545F4914F6CDD1D)) >> 61 & 1 == 1 {
                c.to_ascii_lowercase()
            } else {
                c
            }
        },
    }
}

pub fn render_exp(out: &mut Vec<u8>, spec: &Spec, e: i64, st: &Style) {
    let c = if st.exp_upper { spec.exp_char.to_ascii_uppercase() } else { spec.exp_char.to_ascii_lowercase() };
    out.push(c);
    if e < 0 {
        out.push(b'-');
    } else if st.exp_plus {
        out.push(b'+');
    }
    for _ in 0..st.exp_lead_zeros {
        out.push(b'0');
    }
    let ds = Big::from_u64(e.unsigned_abs()).to_digits(spec.exp_radix);
    out.extend(ds.iter().enumerate().map(|(i, &d)| styled_digit(d, st, i + 1000)));
}

/// Render value = digits * radix^-k  (k in mantissa-digit units) in the given style.
pub fn render(spec: &Spec, digits: &[u8], k: i64, st: &Style) -> Vec<u8> {
    let mut out = Vec::with_capacity(digits.len() + 32);
    if st.sign != 0 {
        out.push(st.sign);
    }
    let l = digits.len();
    let step = spec.step();
    let mut frac_len: i64 = 0;
    for _ in 0..st.lead_zeros {
        out.push(b'0');
    }
    if st.int_len == usize::MAX {
        out.extend(digits.iter().enumerate().map(|(i, &d)| styled_digit(d, st, i)));
        for _ in 0..st.trail_zeros {
            out.push(b'0');
            frac_len -= 1; // integer trailing zeros multiply the value
        }
    } else {
        let i = st.int_len.min(l);
        out.extend(digits[..i].iter().enumerate().map(|(j, &d)| styled_digit(d, st, j)));
        if i == 0 && st.lead_zeros == 0 {
            out.push(b'0');
        }
        out.push(spec.point);
        if i == 0 {
            for _ in 0..st.frac_zeros {
                out.push(b'0');
                frac_len += 1;
            }
        }
        out.extend(digits[i..].iter().enumerate().map(|(j, &d)| styled_digit(d, st, i + j)));
        frac_len += (l - i) as i64;
        for _ in 0..st.trail_zeros {
            out.push(b'0');
        }
        if frac_len == 0 && st.trail_zeros == 0 && i == l {
            out.push(b'0');
        }
    }
    // value = shown_mantissa * radix^(-frac_len) * base^e  ==> base^e = radix^(frac_len - k)
    let e = (frac_len - k) * step;
    if !(e == 0 && st.omit_zero_exp) {
        render_exp(&mut out, spec, e, st);
    }
    out
}

pub fn random_style(rng: &mut Rng, ndigits: usize) -> Style {
    let mut st = Style::default();
    st.int_len = match rng.below(6) {
        0 => usize::MAX,
        1 => 0,
        2 => 1,
        3 => ndigits,
        _ => rng.below(ndigits as u64 + 1) as usize,
    };
    if rng.chance(1, 5) {
        st.lead_zeros = 1 + rng.below(4) as usize;
    }
    if st.int_len == 0 && rng.chance(1, 3) {
        st.frac_zeros = 1 + rng.below(25) as usize;
    }
    if rng.chance(1, 6) {
        st.trail_zeros = 1 + rng.below(5) as usize;
    }
    st.sign = match rng.below(5) {
        0 => b'-',
        1 => b'+',
        _ => 0,
    };
    st.exp_plus = rng.chance(1, 4);
    st.exp_upper = rng.chance(1, 3);
    if rng.chance(1, 10) {
        st.exp_lead_zeros = 1 + rng.below(3) as usize;
    }
    st.omit_zero_exp = rng.chance(1, 2);
    // letter digits in either case (lexical accepts both for every radix above 10)
    st.letter_case = match rng.below(6) {
        0 | 1 | 2 => 0,
        3 => 1,
        _ => 2 + rng.below(250) as u8,
    };
    st
}

pub struct Case {
    pub text: Vec<u8>,
    pub tag: &'static str,
}

/// Everything around the halfway point above the finite float `abs_bits` (i.e. between it and the
/// next float up, incl. 0 -> min subnormal and MAX -> overflow).
pub fn halfway_family(spec: &Spec, kind: Kind, abs_bits: u64, rng: &mut Rng, thorough: bool, sink: &mut dyn FnMut(Case)) {
    let (m, p) = kind.decode(abs_bits);
    let mant = Big::from_u128(2 * m as u128 + 1);
    let p2 = p - 1;
    let r = spec.radix;
    // n-digit neighbours of the halfway point
    let step_digits = (64.0 / (r as f64).log2()).floor() as usize; // digits that fit a u64
    let mut ns: Vec<usize> = vec![step_digits.saturating_sub(2).max(1), step_digits - 1, step_digits, step_digits + 1, step_digits + 6];
    if r == 10 {
        ns.push(17);
        ns.push(9);
    }
    ns.push(2 * step_digits + 2);
    if thorough {
        ns.push(3 * step_digits + rng.below(40) as usize);
    }
    for &n in &ns {
        let (f, k, exact) = floor_digits(&mant, p2, r, n);
        if f.len() != n {
            continue;
        }
        let st = random_style(rng, f.len());
        sink(Case { text: render(spec, &f, k, &st), tag: if exact { "tie-short" } else { "below-halfway" } });
        let up = incr(&f, r);
        let st = random_style(rng, up.len());
        sink(Case { text: render(spec, &up, k, &st), tag: "above-halfway" });
        if exact && f.iter().any(|&d| d != 0) {
            let dn = decr(&f, r);
            let st = random_style(rng, dn.len());
            sink(Case { text: render(spec, &dn, k, &st), tag: "below-halfway" });
        }
    }
    // the exact halfway point, when it has a finite expansion (radix even), with long-tail perturbations
    if r % 2 == 0 {
        // number of fractional digits needed: ceil(-p2 / v2(r)) where r = 2^a * odd
        let a = r.trailing_zeros() as i64;
        let k = if p2 < 0 { (-p2 + a - 1) / a } else { 0 };
        let (full, exact) = scaled_floor(&mant, p2, r, k);
        debug_assert!(exact);
        let mut d = full.to_digits(r);
        let mut kk = k;
        // strip trailing zero digits
        while d.len() > 1 && *d.last().unwrap() == 0 && kk > 0 {
            d.pop();
            kk -= 1;
        }
        if d.len() <= 1200 && exact {
            let st = random_style(rng, d.len());
            sink(Case { text: render(spec, &d, kk, &st), tag: "tie-exact" });
            let mut st = random_style(rng, d.len());
            st.trail_zeros = 0;
            // tie + trailing zeros then a 1  (sticky digit far away)
            let z = [0usize, 1, 7, 30][rng.below(4) as usize];
            let mut above = d.clone();
            above.extend(std::iter::repeat(0).take(z));
            above.push(1);
            sink(Case { text: render(spec, &above, kk + z as i64 + 1, &st), tag: "tie-plus-epsilon" });
            // tie with the last digit decremented, followed by (r-1) digits
            let mut below = decr(&d, r);
            let z = [1usize, 5, 20][rng.below(3) as usize];
            below.extend(std::iter::repeat((r - 1) as u8).take(z));
            sink(Case { text: render(spec, &below, kk + z as i64, &st), tag: "tie-minus-epsilon" });
            // the same with the sticky digit hundreds of digits away, and the decimal point placed (a) after every
            // digit, (b) right before the sticky digit - so that the integer component alone already holds more
            // digits than any parser keeps - (c) inside the zero run, (d) before every digit
            let nlong = if thorough { 6 } else { 2 };
            for _ in 0..nlong {
                let total = 40 + rng.below(1260) as usize;
                let z = total.saturating_sub(d.len() + 1);
                let mut above = d.clone();
                above.extend(std::iter::repeat(0).take(z));
                above.push(1);
                let mut ls = st;
                ls.frac_zeros = 0;
                ls.int_len = match rng.below(5) {
                    0 => usize::MAX,
                    1 | 2 => above.len() - 1,
                    3 => d.len() + z / 2,
                    _ => 0,
                };
                sink(Case { text: render(spec, &above, kk + z as i64 + 1, &ls), tag: "tie-plus-epsilon" });
                if rng.chance(1, 2) {
                    let mut below = decr(&d, r);
                    below.extend(std::iter::repeat((r - 1) as u8).take(z + 1));
                    sink(Case { text: render(spec, &below, kk + z as i64 + 1, &ls), tag: "tie-minus-epsilon" });
                }
            }
            // tie followed by explicit zeros only (still a tie)
            let mut tz = st;
            tz.trail_zeros = 1 + rng.below(40) as usize;
            if tz.int_len != usize::MAX {
                sink(Case { text: render(spec, &d, kk, &tz), tag: "tie-exact" });
            }
        }
    }
}

fn rand_digits(rng: &mut Rng, radix: u32, n: usize) -> Vec<u8> {
    let mut d: Vec<u8> = (0..n).map(|_| rng.below(radix as u64) as u8).collect();
    if d[0] == 0 {
        d[0] = 1 + rng.below(radix as u64 - 1) as u8;
    }
    d
}

/// decimal exponent (in mantissa-radix digits) range that covers the whole finite range and a bit more
fn exp_range(spec: &Spec, kind: Kind) -> (i64, i64) {
    let l2 = (spec.radix as f64).log2();
    let lo = ((kind.min_pow2() - 3) as f64 / l2).floor() as i64 - 2;
    let hi = ((kind.max_pow2() + kind.mant_bits as i64 + 3) as f64 / l2).ceil() as i64 + 2;
    (lo, hi)
}

/// structure / limits / random families
pub fn structure_family(spec: &Spec, kind: Kind, rng: &mut Rng, thorough: bool, sink: &mut dyn FnMut(Case)) {
    let r = spec.radix;
    let (elo, ehi) = exp_range(spec, kind);
    let step_digits = (64.0 / (r as f64).log2()).floor() as usize;
    // 1. point at every position, digit counts around the u64 step and SWAR windows
    for n in 1..=(2 * step_digits + 3).min(44) {
        let d = rand_digits(rng, r, n);
        for i in 0..=n {
            let mut st = Style::default();
            st.int_len = i;
            st.omit_zero_exp = true;
            let k = rng.range(-30, 30);
            sink(Case { text: render(spec, &d, k, &st), tag: "point-position" });
        }
    }
    // 2. zero runs
    let zr: &[usize] = if thorough { &[1, 2, 7, 8, 9, 19, 20, 40, 100, 500, 767, 768, 2000, 16000] } else { &[1, 7, 8, 9, 19, 20, 40, 100, 770, 2000] };
    for &z in zr {
        for n in [1usize, 3, step_digits, step_digits + 3] {
            let d = rand_digits(rng, r, n);
            let mut st = Style::default();
            st.lead_zeros = z;
            st.int_len = rng.below(n as u64 + 1) as usize;
            sink(Case { text: render(spec, &d, rng.range(-20, 20), &st), tag: "zero-run" });
            let mut st = Style::default();
            st.int_len = 0;
            st.frac_zeros = z;
            sink(Case { text: render(spec, &d, rng.range(-20, 20) - z as i64, &st), tag: "zero-run" });
            let mut st = Style::default();
            st.int_len = usize::MAX;
            st.trail_zeros = z;
            sink(Case { text: render(spec, &d, rng.range(-5, 5) + z as i64, &st), tag: "zero-run" });
            let mut st = Style::default();
            st.int_len = n;
            st.trail_zeros = z;
            sink(Case { text: render(spec, &d, rng.range(-20, 20), &st), tag: "zero-run" });
        }
    }
    // 3. exponent sweep over and beyond the finite range
    let mut e = elo - 40;
    while e <= ehi + 40 {
        for n in [1usize, 2, step_digits - 1, step_digits + 4] {
            let d = rand_digits(rng, r, n);
            let st = random_style(rng, n);
            sink(Case { text: render(spec, &d, -e, &st), tag: "exp-sweep" });
        }
        e += if thorough { 1 } else { 3 };
    }
    // 4. extreme exponents: hand-rendered digit strings in the exponent radix
    let xr = spec.exp_radix;
    let big_exps: Vec<Vec<u8>> = {
        let mut v = Vec::new();
        for &val in &[
            0x0fff_ffffu64, 0x1000_0000, 0x1000_0001, i32::MAX as u64 - 1, i32::MAX as u64, i32::MAX as u64 + 1, u32::MAX as u64,
            u32::MAX as u64 + 1, i64::MAX as u64, i64::MAX as u64 + 1, u64::MAX, 2_500_000_000, 100_000, 65536, 32768, 5000, 1100, 400,
        ] {
            v.push(Big::from_u64(val).to_digits(xr));
        }
        // beyond u64 / u128
        v.push(Big::pow(xr, 25).to_digits(xr));
        v.push(Big::pow(xr, 45).to_digits(xr));
        let mut ones = vec![(xr - 1) as u8; 30];
        ones[0] = 1;
        v.push(ones);
        v
    };
    for ed in &big_exps {
        for mant in [&[0u8][..], &[1u8][..], &[1, 0, 0][..]] {
            for neg in [false, true] {
                for frac in [false, true] {
                    let mut t = Vec::new();
                    if rng.chance(1, 3) {
                        t.push(b'-');
                    }
                    t.extend(mant.iter().map(|&d| digit_char(d)));
                    if frac {
                        t.push(spec.point);
                        t.push(b'0');
                        t.push(digit_char(1));
                    }
                    t.push(spec.exp_char);
                    if neg {
                        t.push(b'-');
                    }
                    t.extend(ed.iter().map(|&d| digit_char(d)));
                    sink(Case { text: t, tag: "extreme-exp" });
                }
            }
        }
    }
    // 4b. huge exponent cancelled by a long zero run (value back in range)
    for &z in &[400usize, 1100, 3000] {
        let d = rand_digits(rng, r, 3);
        let mut st = Style::default();
        st.int_len = 0;
        st.frac_zeros = z;
        // value = 0.000..ddd * r^(z) ~ 0.ddd
        sink(Case { text: render(spec, &d, 3, &st), tag: "cancel-exp" });
        let mut st = Style::default();
        st.int_len = usize::MAX;
        st.trail_zeros = z;
        sink(Case { text: render(spec, &d, 0, &st), tag: "cancel-exp" });
    }
    // 5. fast-path limits: mantissa around 2^(mant_bits+1), exponents around the exact-power limit
    let lim_e = (((kind.mant_bits + 1) as f64) / (r as f64).log2()).floor() as i64; // r^lim_e < 2^53
    let mlim = 1u128 << (kind.mant_bits + 1);
    for dm in -3i64..=3 {
        let mv = (mlim as i128 + dm as i128) as u128;
        let d = Big::from_u128(mv).to_digits(r);
        for de in -4i64..=4 {
            for sgn in [-1i64, 1] {
                let e = sgn * (lim_e + de);
                let st = random_style(rng, d.len());
                sink(Case { text: render(spec, &d, -e, &st), tag: "fastpath-limit" });
            }
        }
        // disguised fast path: small mantissa, exponent beyond the limit
        let ns = 1 + rng.below(4) as usize;
        let small = rand_digits(rng, r, ns);
        for e in lim_e..lim_e + step_digits as i64 + 4 {
            let mut st = Style::default();
            st.int_len = usize::MAX;
            sink(Case { text: render(spec, &small, -e, &st), tag: "fastpath-limit" });
        }
    }
    // 6. random digit strings of varied length, exponent so that the value is in or near range
    let nrand = if thorough { 60000 } else { 12000 };
    for _ in 0..nrand {
        let n = match rng.below(10) {
            0..=3 => 1 + rng.below(step_digits as u64 + 2) as usize,
            4..=6 => step_digits - 2 + rng.below(8) as usize,
            7..=8 => 20 + rng.below(60) as usize,
            _ => 100 + rng.below(if thorough { 1500 } else { 700 }) as usize,
        };
        let d = rand_digits(rng, r, n);
        // scientific exponent uniform over the finite range
        let sci = rng.range(elo - 5, ehi + 5);
        let k = (n as i64 - 1) - sci;
        let st = random_style(rng, n);
        sink(Case { text: render(spec, &d, k, &st), tag: if n > step_digits { "random-long" } else { "random-short" } });
    }
    // 7. very long inputs
    let longs: &[usize] = if thorough { &[767, 768, 769, 1100, 4000, 16000] } else { &[767, 768, 769, 1100, 4096] };
    for &n in longs {
        for _ in 0..3 {
            let d = rand_digits(rng, r, n);
            let sci = rng.range(elo / 2, ehi / 2);
            let k = (n as i64 - 1) - sci;
            let st = random_style(rng, n);
            sink(Case { text: render(spec, &d, k, &st), tag: "very-long" });
        }
    }
}

/// float bit patterns that every binade-sweep uses: each binade x a few mantissas
pub fn binade_bits(kind: Kind, rng: &mut Rng, per_binade: usize) -> Vec<u64> {
    let mut v = Vec::new();
    let nexp = 1u64 << kind.exp_bits;
    let mmask = (1u64 << kind.mant_bits) - 1;
    for e in 0..nexp - 1 {
        let base = e << kind.mant_bits;
        v.push(base); // power of two / zero
        v.push(base | mmask); // all ones (next is a binade step / overflow)
        v.push(base | 1);
        for _ in 0..per_binade {
            v.push(base | (rng.next_u64() & mmask));
        }
    }
    v
}

/// Decimal literals `w e q` with w < 2^64 that are *exactly* halfway between two floats (and their
/// neighbours w-1, w+1): the inputs that exercise the round-to-even window of the Eisel-Lemire path
/// (q in about [-4, 23] for f64, [-17, 10] for f32) at and beyond both ends of the window.
pub fn short_ties(kind: Kind, rng: &mut Rng, sink: &mut dyn FnMut(Case)) {
    let bits = kind.mant_bits + 2; // a halfway point has mant_bits + 2 significant bits, the last one set
    let spec = Spec::DECIMAL;
    for q in -30i64..=30 {
        let p5: u128 = 5u128.pow(q.unsigned_abs() as u32);
        let mut ws: Vec<u128> = Vec::new();
        if q >= 0 {
            // w = d * 2^j with d*5^q odd and exactly `bits` bits long
            let lo = ((1u128 << (bits - 1)) + p5 - 1) / p5;
            let hi = ((1u128 << bits) - 1) / p5;
            if hi == 0 || hi < lo {
                continue;
            }
            let mut ds = vec![lo | 1, if hi % 2 == 1 { hi } else { hi.saturating_sub(1) }];
            for _ in 0..6 {
                ds.push((lo + rng.next_u128() % (hi - lo + 1)) | 1);
            }
            for d in ds {
                if d < lo || d > hi || d % 2 == 0 {
                    continue;
                }
                let maxj = (u64::MAX as u128 / d).ilog2();
                for j in [0, maxj, rng.below(maxj as u64 + 1) as u32, rng.below(maxj as u64 + 1) as u32] {
                    ws.push(d << j);
                }
            }
        } else {
            // w = o * 5^|q| * 2^j with o odd, exactly `bits` bits
            if p5 >= (1u128 << (65 - bits)) {
                continue;
            }
            for t in 0..8 {
                let o = match t {
                    0 => (1u128 << (bits - 1)) | 1,
                    1 => (1u128 << bits) - 1,
                    _ => ((1u128 << (bits - 1)) | (rng.next_u128() & ((1u128 << (bits - 1)) - 1))) | 1,
                };
                let w = o * p5;
                if w > u64::MAX as u128 {
                    continue;
                }
                let maxj = (u64::MAX as u128 / w).ilog2();
                for j in [0, maxj, rng.below(maxj as u64 + 1) as u32] {
                    ws.push(w << j);
                }
            }
        }
        for w in ws {
            for (dw, tag) in [(0i64, "tie-short-decimal"), (-1, "below-halfway"), (1, "above-halfway")] {
                let v = (w as i128 + dw as i128) as u128;
                let d = Big::from_u128(v).to_digits(10);
                let mut st = Style::default();
                st.int_len = usize::MAX;
                sink(Case { text: render(&spec, &d, -q, &st), tag });
                let st = random_style(rng, d.len());
                sink(Case { text: render(&spec, &d, -q, &st), tag });
            }
        }
    }
}
