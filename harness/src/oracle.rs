//! Exact-arithmetic oracles for string<->float claims.  Only `Big` comparisons,
//! multiplications and shifts are used (no floating point anywhere).

use crate::big::Big;
use std::cmp::Ordering;

#[derive(Clone, Copy, Debug, PartialEq, Eq)]
pub struct Kind {
    pub mant_bits: u32, // explicit mantissa bits (52 / 23)
    pub exp_bits: u32,  // 11 / 8
}
pub const F64: Kind = Kind { mant_bits: 52, exp_bits: 11 };
pub const F32: Kind = Kind { mant_bits: 23, exp_bits: 8 };

impl Kind {
    pub fn name(&self) -> &'static str {
        if self.mant_bits == 52 {
            "f64"
        } else {
            "f32"
        }
    }
    pub fn bias(&self) -> i64 {
        (1i64 << (self.exp_bits - 1)) - 1
    }
    pub fn sign_bit(&self) -> u64 {
        1u64 << (self.mant_bits + self.exp_bits)
    }
    pub fn abs_mask(&self) -> u64 {
        self.sign_bit() - 1
    }
    /// bits of +inf (== largest finite + 1)
    pub fn inf_bits(&self) -> u64 {
        ((1u64 << self.exp_bits) - 1) << self.mant_bits
    }
    pub fn is_nan(&self, bits: u64) -> bool {
        (bits & self.abs_mask()) > self.inf_bits()
    }
    /// finite |bits| -> (m, p) with value m * 2^p
    pub fn decode(&self, abs_bits: u64) -> (u64, i64) {
        debug_assert!(abs_bits < self.inf_bits());
        let frac = abs_bits & ((1u64 << self.mant_bits) - 1);
        let e = (abs_bits >> self.mant_bits) as i64;
        if e == 0 {
            (frac, 1 - self.bias() - self.mant_bits as i64)
        } else {
            (frac | (1u64 << self.mant_bits), e - self.bias() - self.mant_bits as i64)
        }
    }
    pub fn min_pow2(&self) -> i64 {
        1 - self.bias() - self.mant_bits as i64
    }
    pub fn max_pow2(&self) -> i64 {
        // exponent p of the largest finite
        (1i64 << self.exp_bits) - 2 - self.bias() - self.mant_bits as i64
    }
}

/// A non-negative exact value.
#[derive(Clone, Debug)]
pub enum Exact {
    Zero,
    /// n / d, n > 0, d > 0
    Rat(Big, Big),
    /// certainly above every finite float's rounding range (2^1100 or more)
    Huge,
    /// non-zero but certainly below half the smallest subnormal of either type (2^-1200 or less)
    Tiny,
}

/// log2(base) bounds as rationals of 2^-20, for magnitude clamps only (never for verdicts on Rat values)
fn log2_bounds(base: u32) -> (f64, f64) {
    let l = (base as f64).log2();
    (l - 1e-9, l + 1e-9)
}

/// value = mant * base^exp.  `exp` is saturated by the caller to i64 range.
pub fn exact_from_parts(mant: &Big, base: u32, exp: i64) -> Exact {
    if mant.is_zero() {
        return Exact::Zero;
    }
    let bl = mant.bit_length() as f64;
    let (lo, hi) = log2_bounds(base);
    let e = exp as f64;
    // upper bound on log2(value) is bl + e*l ; lower bound is bl - 1 + e*l
    let (ub, lb) = if exp >= 0 { (bl + e * hi, bl - 1.0 + e * lo) } else { (bl + e * lo, bl - 1.0 + e * hi) };
    if lb > 1100.0 {
        return Exact::Huge;
    }
    if ub < -1200.0 {
        return Exact::Tiny;
    }
    if exp >= 0 {
        Exact::Rat(mant.mul(&Big::pow(base, exp as u64)), Big::from_u64(1))
    } else {
        Exact::Rat(mant.clone(), Big::pow(base, exp.unsigned_abs()))
    }
}

/// compare n/d with mm * 2^pp
pub fn cmp_scaled(n: &Big, d: &Big, mm: &Big, pp: i64) -> Ordering {
    if pp >= 0 {
        n.cmp(&mm.mul(d).shl(pp as u64))
    } else {
        n.shl(pp.unsigned_abs()).cmp(&mm.mul(d))
    }
}

/// Is `abs_bits` (finite or inf, never NaN) the round-to-nearest-even result for the exact value?
pub fn is_correctly_rounded(k: Kind, x: &Exact, abs_bits: u64) -> bool {
    let inf = k.inf_bits();
    if abs_bits > inf {
        return false;
    }
    match x {
        Exact::Zero => abs_bits == 0,
        Exact::Tiny => abs_bits == 0,
        Exact::Huge => abs_bits == inf,
        Exact::Rat(n, d) => {
            if abs_bits == inf {
                // x >= halfway(MAX, 2^emax+1)
                let (m, p) = k.decode(inf - 1);
                let half = Big::from_u128(2 * m as u128 + 1);
                return cmp_scaled(n, d, &half, p - 1) != Ordering::Less;
            }
            let (m, p) = k.decode(abs_bits);
            let even = abs_bits & 1 == 0;
            // upper halfway: (2m+1) 2^(p-1)
            let up = Big::from_u128(2 * m as u128 + 1);
            match cmp_scaled(n, d, &up, p - 1) {
                Ordering::Greater => return false,
                Ordering::Equal => return even,
                Ordering::Less => {},
            }
            if abs_bits == 0 {
                return true; // x >= 0 always
            }
            // lower halfway
            let hidden = 1u64 << k.mant_bits;
            let (lo, lp) = if m == hidden && p > k.min_pow2() {
                (Big::from_u128(4 * m as u128 - 1), p - 2)
            } else {
                (Big::from_u128(2 * m as u128 - 1), p - 1)
            };
            match cmp_scaled(n, d, &lo, lp) {
                Ordering::Less => false,
                Ordering::Equal => even,
                Ordering::Greater => true,
            }
        },
    }
}

/// Round-to-nearest-even of the exact value: binary search over the (monotone) bit patterns.
pub fn round_nearest_even(k: Kind, x: &Exact) -> u64 {
    let inf = k.inf_bits();
    match x {
        Exact::Zero | Exact::Tiny => 0,
        Exact::Huge => inf,
        Exact::Rat(n, d) => {
            // largest finite b with value(b) <= x
            let (mut lo, mut hi) = (0u64, inf - 1);
            // invariant: value(lo) <= x ; answer in [lo, hi]
            while lo < hi {
                let mid = lo + (hi - lo + 1) / 2;
                let (m, p) = k.decode(mid);
                if cmp_scaled(n, d, &Big::from_u64(m), p) != Ordering::Less {
                    lo = mid;
                } else {
                    hi = mid - 1;
                }
            }
            let (m, p) = k.decode(lo);
            let half = Big::from_u128(2 * m as u128 + 1);
            match cmp_scaled(n, d, &half, p - 1) {
                Ordering::Less => lo,
                Ordering::Greater => lo + 1,
                Ordering::Equal => {
                    if lo & 1 == 0 {
                        lo
                    } else {
                        lo + 1
                    }
                },
            }
        },
    }
}

/// |x - value(abs_bits)| < units * ulp(abs_bits)   (abs_bits finite; ulp = 2^p of its decoding)
pub fn within_ulps(k: Kind, x: &Exact, abs_bits: u64, units: u64) -> bool {
    let (m, p) = k.decode(abs_bits);
    match x {
        Exact::Zero | Exact::Tiny => m < units,
        Exact::Huge => false,
        Exact::Rat(n, d) => {
            let hi = Big::from_u128(m as u128 + units as u128);
            if cmp_scaled(n, d, &hi, p) != Ordering::Less {
                return false;
            }
            if m >= units {
                let lo = Big::from_u64(m - units);
                if cmp_scaled(n, d, &lo, p) != Ordering::Greater {
                    return false;
                }
            }
            true
        },
    }
}

/// exact equality of x with the float
pub fn equals_float(k: Kind, x: &Exact, abs_bits: u64) -> bool {
    let (m, p) = k.decode(abs_bits);
    match x {
        Exact::Zero => m == 0,
        Exact::Tiny | Exact::Huge => false,
        Exact::Rat(n, d) => cmp_scaled(n, d, &Big::from_u64(m), p) == Ordering::Equal,
    }
}

/// A number split into the parts the grammar gives it.
#[derive(Clone, Debug, Default)]
pub struct Parts {
    pub neg: bool,
    /// digit values (0..radix) of integer then fraction, in order
    pub int_digits: Vec<u8>,
    pub frac_digits: Vec<u8>,
    pub has_exp: bool,
    pub exp_neg: bool,
    /// digit values in the exponent radix
    pub exp_digits: Vec<u8>,
}

pub fn digit_value(c: u8) -> u32 {
    match c {
        b'0'..=b'9' => (c - b'0') as u32,
        b'a'..=b'z' => (c - b'a') as u32 + 10,
        b'A'..=b'Z' => (c - b'A') as u32 + 10,
        _ => 99,
    }
}

/// Plain (separator-free, prefix-free) number recogniser: [+-]digits[.digits][E[+-]digits].
/// Returns None when the bytes do not match (no judgement is made then).
pub fn split_simple(bytes: &[u8], radix: u32, exp_radix: u32, point: u8, exp_lower: u8) -> Option<Parts> {
    let mut p = Parts::default();
    let mut i = 0;
    if i < bytes.len() && (bytes[i] == b'+' || bytes[i] == b'-') {
        p.neg = bytes[i] == b'-';
        i += 1;
    }
    while i < bytes.len() && digit_value(bytes[i]) < radix {
        p.int_digits.push(digit_value(bytes[i]) as u8);
        i += 1;
    }
    if i < bytes.len() && bytes[i] == point {
        i += 1;
        while i < bytes.len() && digit_value(bytes[i]) < radix {
            p.frac_digits.push(digit_value(bytes[i]) as u8);
            i += 1;
        }
    }
    if p.int_digits.is_empty() && p.frac_digits.is_empty() {
        return None;
    }
    if i < bytes.len() && (bytes[i] | 0x20) == (exp_lower | 0x20) {
        i += 1;
        p.has_exp = true;
        if i < bytes.len() && (bytes[i] == b'+' || bytes[i] == b'-') {
            p.exp_neg = bytes[i] == b'-';
            i += 1;
        }
        while i < bytes.len() && digit_value(bytes[i]) < exp_radix {
            p.exp_digits.push(digit_value(bytes[i]) as u8);
            i += 1;
        }
        if p.exp_digits.is_empty() {
            return None;
        }
    }
    if i != bytes.len() {
        return None;
    }
    Some(p)
}

impl Parts {
    /// exact |value| = digits * base^(exp - frac_len * log_base(radix)), where base^k == radix (k = digits-per... see below)
    ///
    /// `radix` is the mantissa radix, `base` the exponent base.  For mixed
    /// formats (radix = base^k) the fraction shifts by k per digit.
    pub fn exact(&self, radix: u32, base: u32, exp_radix: u32) -> Exact {
        let mut all = self.int_digits.clone();
        all.extend_from_slice(&self.frac_digits);
        let mant = Big::from_digits(radix, &all);
        if mant.is_zero() {
            return Exact::Zero;
        }
        // explicit exponent, saturated
        let mut e: i64 = 0;
        for &dg in &self.exp_digits {
            e = e.saturating_mul(exp_radix as i64).saturating_add(dg as i64);
            if e > (1i64 << 40) {
                e = 1i64 << 40;
            }
        }
        if self.exp_neg {
            e = -e;
        }
        if radix == base {
            return exact_from_parts(&mant, base, e - self.frac_digits.len() as i64);
        }
        // radix = base^k
        let mut k = 0i64;
        let mut t = 1u32;
        while t < radix {
            t *= base;
            k += 1;
        }
        assert!(t == radix, "mixed base must be a power");
        exact_from_parts(&mant, base, e - k * self.frac_digits.len() as i64)
    }
}

/// self-test of the rounding oracle against the platform's exact integer->float conversions and a
/// brute-force neighbour search; returns the number of checks
pub fn selftest(seed: u64) -> Result<u64, String> {
    let mut rng = crate::rng::Rng::new(seed ^ 0x0c1e);
    let mut n = 0;
    for i in 0..20000u64 {
        // random float, exact value, must be its own rounding; halfway points go to even
        let k = if i & 1 == 0 { F64 } else { F32 };
        let bits = rng.next_u64() % k.inf_bits();
        let (m, p) = k.decode(bits);
        let x = if p >= 0 {
            Exact::Rat(Big::from_u64(m).shl(p as u64), Big::from_u64(1))
        } else {
            Exact::Rat(Big::from_u64(m), Big::from_u64(1).shl((-p) as u64))
        };
        if m != 0 {
            if !is_correctly_rounded(k, &x, bits) || round_nearest_even(k, &x) != bits {
                return Err(format!("self {} {bits:#x}", k.name()));
            }
            if is_correctly_rounded(k, &x, bits + 1) || (bits > 0 && is_correctly_rounded(k, &x, bits - 1)) {
                return Err(format!("neighbour accepted {} {bits:#x}", k.name()));
            }
            if !equals_float(k, &x, bits) || !within_ulps(k, &x, bits, 1) {
                return Err("equals".into());
            }
        }
        // halfway between bits and bits+1
        let h = Big::from_u128(2 * m as u128 + 1);
        let hx = if p - 1 >= 0 {
            Exact::Rat(h.shl((p - 1) as u64), Big::from_u64(1))
        } else {
            Exact::Rat(h, Big::from_u64(1).shl((1 - p) as u64))
        };
        let want = if bits & 1 == 0 { bits } else { bits + 1 };
        if round_nearest_even(k, &hx) != want || !is_correctly_rounded(k, &hx, want) || is_correctly_rounded(k, &hx, want ^ 1) {
            return Err(format!("tie {} {bits:#x}", k.name()));
        }
        n += 3;
    }
    // integers: compare with the hardware's correctly rounded u128 -> float conversion
    for _ in 0..20000 {
        let v = rng.next_u128() >> rng.below(127);
        if v == 0 {
            continue;
        }
        let x = Exact::Rat(Big::from_u128(v), Big::from_u64(1));
        let b64 = (v as f64).to_bits();
        let b32 = (v as f32).to_bits() as u64;
        if round_nearest_even(F64, &x) != b64 || !is_correctly_rounded(F64, &x, b64) {
            return Err(format!("u128->f64 {v}"));
        }
        if round_nearest_even(F32, &x) != b32 || !is_correctly_rounded(F32, &x, b32) {
            return Err(format!("u128->f32 {v}"));
        }
        n += 2;
    }
    // ratios of integers: compare with hardware division of exactly representable operands
    for _ in 0..20000 {
        let a = rng.next_u64() >> 11;
        let b = (rng.next_u64() >> 11) | 1;
        let x = Exact::Rat(Big::from_u64(a), Big::from_u64(b));
        let q = (a as f64 / b as f64).to_bits(); // IEEE division is correctly rounded
        if a != 0 && (round_nearest_even(F64, &x) != q || !is_correctly_rounded(F64, &x, q)) {
            return Err(format!("div {a}/{b}"));
        }
        let a32 = (a >> 29) as u32;
        let b32 = ((b >> 29) as u32) | 1;
        let x = Exact::Rat(Big::from_u64(a32 as u64), Big::from_u64(b32 as u64));
        let q = (a32 as f32 / b32 as f32).to_bits() as u64;
        if a32 != 0 && (round_nearest_even(F32, &x) != q || !is_correctly_rounded(F32, &x, q)) {
            return Err(format!("div32 {a32}/{b32}"));
        }
        n += 2;
    }
    Ok(n)
}

/// x >= 2^(emax+1): beyond any rounding doubt an infinity
pub fn clearly_inf(k: Kind, x: &Exact) -> bool {
    match x {
        Exact::Huge => true,
        Exact::Zero | Exact::Tiny => false,
        Exact::Rat(n, d) => cmp_scaled(n, d, &Big::from_u64(1), k.max_pow2() + k.mant_bits as i64 + 1) != Ordering::Less,
    }
}
/// x <= a quarter of the smallest subnormal (or exactly zero): beyond any rounding doubt a zero
pub fn clearly_zero(k: Kind, x: &Exact) -> bool {
    match x {
        Exact::Zero | Exact::Tiny => true,
        Exact::Huge => false,
        Exact::Rat(n, d) => cmp_scaled(n, d, &Big::from_u64(1), k.min_pow2() - 2) != Ordering::Greater,
    }
}
