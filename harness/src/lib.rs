//! Runtime-monitoring harness for rust-lexical (see /verif/DESIGN.md).
pub mod big;
pub mod exec;
pub mod fgen;
pub mod fmts;
pub mod fmttab;
pub mod guard;
pub mod oracle;
pub mod refgram;
pub mod report;
pub mod rng;
pub mod wgen;

/// build configuration name derived from the enabled cargo features (recorded in every event log)
pub fn config_name() -> String {
    let mut s = String::new();
    if !cfg!(feature = "std") {
        s.push('n');
    }
    if cfg!(feature = "compact") {
        s.push('c');
    }
    if cfg!(feature = "radix") {
        s.push('r');
    } else if cfg!(feature = "power-of-two") {
        s.push('p');
    }
    if cfg!(feature = "format") {
        s.push('f');
    }
    if s.is_empty() || s == "n" {
        s.push('d');
    }
    s
}
pub fn profile_name() -> &'static str {
    if cfg!(miri) {
        "miri"
    } else if cfg!(debug_assertions) {
        "dbg"
    } else {
        "rel"
    }
}
