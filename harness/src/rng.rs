//! Deterministic PRNG (splitmix64 seeding + xoshiro256**). Every random choice in the harness comes from here.
#[derive(Clone)]
pub struct Rng {
    s: [u64; 4],
}
fn splitmix(x: &mut u64) -> u64 {
    *x = x.wrapping_add(0x9E3779B97F4A7C15);
    let mut z = *x;
    z = (z ^ (z >> 30)).wrapping_mul(0xBF58476D1CE4E5B9);
    z = (z ^ (z >> 27)).wrapping_mul(0x94D049BB133111EB);
    z ^ (z >> 31)
}
impl Rng {
    pub fn new(seed: u64) -> Rng {
        let mut x = seed;
        Rng { s: [splitmix(&mut x), splitmix(&mut x), splitmix(&mut x), splitmix(&mut x)] }
    }
    /// independent stream for (seed, stream id)
    pub fn stream(seed: u64, id: u64) -> Rng {
        Rng::new(seed.wrapping_mul(0xD1342543DE82EF95).wrapping_add(id.wrapping_mul(0x2545F4914F6CDD1D)) ^ 0x5eed)
    }
    pub fn next_u64(&mut self) -> u64 {
        let r = self.s[1].wrapping_mul(5).rotate_left(7).wrapping_mul(9);
        let t = self.s[1] << 17;
        self.s[2] ^= self.s[0];
        self.s[3] ^= self.s[1];
        self.s[1] ^= self.s[2];
        self.s[0] ^= self.s[3];
        self.s[2] ^= t;
        self.s[3] = self.s[3].rotate_left(45);
        r
    }
    pub fn next_u128(&mut self) -> u128 {
        ((self.next_u64() as u128) << 64) | self.next_u64() as u128
    }
    /// uniform in 0..n (n > 0)
    pub fn below(&mut self, n: u64) -> u64 {
        ((self.next_u64() as u128 * n as u128) >> 64) as u64
    }
    pub fn range(&mut self, lo: i64, hi: i64) -> i64 {
        lo + self.below((hi - lo + 1) as u64) as i64
    }
    pub fn chance(&mut self, num: u64, den: u64) -> bool {
        self.below(den) < num
    }
    pub fn pick<'a, T>(&mut self, xs: &'a [T]) -> &'a T {
        &xs[self.below(xs.len() as u64) as usize]
    }
}
