//! Compile-time format sample.  A format is described by a plain `Desc` (what the reference
//! models read) and turned into lexical's packed u128 by applying the documented builder
//! setters one by one (`build`), so the packing itself is under test.  `desc_for(set, seed, i)`
//! is a `const fn`: the sample is a pure function of (set, seed, index) evaluated both at compile
//! time (to instantiate the const generic) and at run time (for the reference).
#[allow(unused_imports)]
use core::num::NonZeroU8;
use lexical_core::NumberFormatBuilder;

// my own flag numbering (NOT lexical's bit layout)
pub const RID: u64 = 1 << 0; // required_integer_digits
pub const RFD: u64 = 1 << 1; // required_fraction_digits
pub const RED: u64 = 1 << 2; // required_exponent_digits (default on)
pub const RMD: u64 = 1 << 3; // required_mantissa_digits (default on)
pub const NPMS: u64 = 1 << 4; // no_positive_mantissa_sign
pub const RMS: u64 = 1 << 5; // required_mantissa_sign
pub const NEN: u64 = 1 << 6; // no_exponent_notation
pub const NPES: u64 = 1 << 7; // no_positive_exponent_sign
pub const RES: u64 = 1 << 8; // required_exponent_sign
pub const NEWF: u64 = 1 << 9; // no_exponent_without_fraction
pub const NSP: u64 = 1 << 10; // no_special
pub const CSS: u64 = 1 << 11; // case_sensitive_special
pub const NILZ: u64 = 1 << 12; // no_integer_leading_zeros
pub const NFLZ: u64 = 1 << 13; // no_float_leading_zeros
pub const REN: u64 = 1 << 14; // required_exponent_notation
pub const CSE: u64 = 1 << 15; // case_sensitive_exponent
pub const CSBP: u64 = 1 << 16; // case_sensitive_base_prefix
pub const CSBS: u64 = 1 << 17; // case_sensitive_base_suffix
pub const N_SYNTAX: u32 = 18;
// separator flags: component c in {0 integer, 1 fraction, 2 exponent}; kind k in {0 I, 1 L, 2 T, 3 C}
pub const fn sepflag(c: u32, k: u32) -> u64 {
    1 << (20 + c * 4 + k)
}
pub const SSEP: u64 = 1 << 32; // special_digit_separator
pub const DEFAULT_FLAGS: u64 = RED | RMD;

#[derive(Clone, Copy, Debug, PartialEq, Eq)]
pub struct Desc {
    pub radix: u8,
    /// 0 = same as radix
    pub base: u8,
    /// 0 = same as radix
    pub exp_radix: u8,
    pub sep: u8,
    pub prefix: u8,
    pub suffix: u8,
    pub flags: u64,
}
impl Desc {
    pub const STANDARD: Desc = Desc { radix: 10, base: 0, exp_radix: 0, sep: 0, prefix: 0, suffix: 0, flags: DEFAULT_FLAGS };
    pub const fn has(&self, f: u64) -> bool {
        self.flags & f != 0
    }
    pub const fn ebase(&self) -> u32 {
        if self.base == 0 {
            self.radix as u32
        } else {
            self.base as u32
        }
    }
    pub const fn eradix(&self) -> u32 {
        if self.exp_radix == 0 {
            self.radix as u32
        } else {
            self.exp_radix as u32
        }
    }
    pub const fn sep_flags(&self, c: u32) -> (bool, bool, bool, bool) {
        (self.has(sepflag(c, 0)), self.has(sepflag(c, 1)), self.has(sepflag(c, 2)), self.has(sepflag(c, 3)))
    }
    pub const fn any_sep_flags(&self) -> bool {
        (self.flags >> 20) & 0x1fff != 0
    }
    pub fn name(&self) -> String {
        format!(
            "r{}b{}x{}|sep={}|pre={}|suf={}|flags={:#x}",
            self.radix,
            self.base,
            self.exp_radix,
            if self.sep == 0 { '-' } else { self.sep as char },
            if self.prefix == 0 { '-' } else { self.prefix as char },
            if self.suffix == 0 { '-' } else { self.suffix as char },
            self.flags
        )
    }
    /// counterpart without any digit separator
    pub const fn without_sep(&self) -> Desc {
        Desc { sep: 0, flags: self.flags & !(0x1fff << 20), ..*self }
    }
}

/// The description that `build` can actually express with the enabled cargo features: setters that need
/// `power-of-two` (radices; with `format`: base prefix/suffix and their case flags) or `format` (separator, flags)
/// do not exist otherwise, so those fields keep their defaults.
pub const fn effective(d: &Desc) -> Desc {
    let mut e = *d;
    if !cfg!(feature = "power-of-two") {
        e.radix = 10;
        e.base = 0;
        e.exp_radix = 0;
    }
    if !cfg!(all(feature = "power-of-two", feature = "format")) {
        e.prefix = 0;
        e.suffix = 0;
        e.flags &= !(CSBP | CSBS);
    }
    if !cfg!(feature = "format") {
        e.sep = 0;
        e.flags = DEFAULT_FLAGS;
    }
    e
}

/// Apply the documented setters (unchecked build: invalid descriptions can be built too).
pub const fn build(d: &Desc) -> u128 {
    #[allow(unused_mut)]
    let mut b = NumberFormatBuilder::new();
    let _ = d;
    #[cfg(feature = "power-of-two")]
    {
        b = b.mantissa_radix(d.radix);
    }
    #[cfg(feature = "power-of-two")]
    {
        b = b.exponent_base(NonZeroU8::new(d.base));
    }
    #[cfg(feature = "power-of-two")]
    {
        b = b.exponent_radix(NonZeroU8::new(d.exp_radix));
    }
    #[cfg(feature = "format")]
    {
        b = b.digit_separator(NonZeroU8::new(d.sep));
    }
    #[cfg(all(feature = "power-of-two", feature = "format"))]
    {
        b = b.base_prefix(NonZeroU8::new(d.prefix));
    }
    #[cfg(all(feature = "power-of-two", feature = "format"))]
    {
        b = b.base_suffix(NonZeroU8::new(d.suffix));
    }
    #[cfg(feature = "format")]
    {
        b = b.required_integer_digits(d.has(RID));
    }
    #[cfg(feature = "format")]
    {
        b = b.required_fraction_digits(d.has(RFD));
    }
    #[cfg(feature = "format")]
    {
        b = b.required_exponent_digits(d.has(RED));
    }
    #[cfg(feature = "format")]
    {
        b = b.required_mantissa_digits(d.has(RMD));
    }
    #[cfg(feature = "format")]
    {
        b = b.no_positive_mantissa_sign(d.has(NPMS));
    }
    #[cfg(feature = "format")]
    {
        b = b.required_mantissa_sign(d.has(RMS));
    }
    #[cfg(feature = "format")]
    {
        b = b.no_exponent_notation(d.has(NEN));
    }
    #[cfg(feature = "format")]
    {
        b = b.no_positive_exponent_sign(d.has(NPES));
    }
    #[cfg(feature = "format")]
    {
        b = b.required_exponent_sign(d.has(RES));
    }
    #[cfg(feature = "format")]
    {
        b = b.no_exponent_without_fraction(d.has(NEWF));
    }
    #[cfg(feature = "format")]
    {
        b = b.no_special(d.has(NSP));
    }
    #[cfg(feature = "format")]
    {
        b = b.case_sensitive_special(d.has(CSS));
    }
    #[cfg(feature = "format")]
    {
        b = b.no_integer_leading_zeros(d.has(NILZ));
    }
    #[cfg(feature = "format")]
    {
        b = b.no_float_leading_zeros(d.has(NFLZ));
    }
    #[cfg(feature = "format")]
    {
        b = b.required_exponent_notation(d.has(REN));
    }
    #[cfg(feature = "format")]
    {
        b = b.case_sensitive_exponent(d.has(CSE));
    }
    #[cfg(all(feature = "power-of-two", feature = "format"))]
    {
        b = b.case_sensitive_base_prefix(d.has(CSBP));
    }
    #[cfg(all(feature = "power-of-two", feature = "format"))]
    {
        b = b.case_sensitive_base_suffix(d.has(CSBS));
    }
    #[cfg(feature = "format")]
    {
        b = b.integer_internal_digit_separator(d.has(sepflag(0, 0)));
    }
    #[cfg(feature = "format")]
    {
        b = b.integer_leading_digit_separator(d.has(sepflag(0, 1)));
    }
    #[cfg(feature = "format")]
    {
        b = b.integer_trailing_digit_separator(d.has(sepflag(0, 2)));
    }
    #[cfg(feature = "format")]
    {
        b = b.integer_consecutive_digit_separator(d.has(sepflag(0, 3)));
    }
    #[cfg(feature = "format")]
    {
        b = b.fraction_internal_digit_separator(d.has(sepflag(1, 0)));
    }
    #[cfg(feature = "format")]
    {
        b = b.fraction_leading_digit_separator(d.has(sepflag(1, 1)));
    }
    #[cfg(feature = "format")]
    {
        b = b.fraction_trailing_digit_separator(d.has(sepflag(1, 2)));
    }
    #[cfg(feature = "format")]
    {
        b = b.fraction_consecutive_digit_separator(d.has(sepflag(1, 3)));
    }
    #[cfg(feature = "format")]
    {
        b = b.exponent_internal_digit_separator(d.has(sepflag(2, 0)));
    }
    #[cfg(feature = "format")]
    {
        b = b.exponent_leading_digit_separator(d.has(sepflag(2, 1)));
    }
    #[cfg(feature = "format")]
    {
        b = b.exponent_trailing_digit_separator(d.has(sepflag(2, 2)));
    }
    #[cfg(feature = "format")]
    {
        b = b.exponent_consecutive_digit_separator(d.has(sepflag(2, 3)));
    }
    #[cfg(feature = "format")]
    {
        b = b.special_digit_separator(d.has(SSEP));
    }
    b.build_unchecked()
}

/// Decode a packed format through lexical's getters (used for the prebuilt formats).
pub fn decode<const FMT: u128>() -> Desc {
    let f = lexical_core::NumberFormat::<FMT> {};
    let mut flags = 0u64;
    let mut set = |c: bool, bit: u64| {
        if c {
            flags |= bit
        }
    };
    set(f.required_integer_digits(), RID);
    set(f.required_fraction_digits(), RFD);
    set(f.required_exponent_digits(), RED);
    set(f.required_mantissa_digits(), RMD);
    set(f.no_positive_mantissa_sign(), NPMS);
    set(f.required_mantissa_sign(), RMS);
    set(f.no_exponent_notation(), NEN);
    set(f.no_positive_exponent_sign(), NPES);
    set(f.required_exponent_sign(), RES);
    set(f.no_exponent_without_fraction(), NEWF);
    set(f.no_special(), NSP);
    set(f.case_sensitive_special(), CSS);
    set(f.no_integer_leading_zeros(), NILZ);
    set(f.no_float_leading_zeros(), NFLZ);
    set(f.required_exponent_notation(), REN);
    set(f.case_sensitive_exponent(), CSE);
    set(f.case_sensitive_base_prefix(), CSBP);
    set(f.case_sensitive_base_suffix(), CSBS);
    set(f.integer_internal_digit_separator(), sepflag(0, 0));
    set(f.integer_leading_digit_separator(), sepflag(0, 1));
    set(f.integer_trailing_digit_separator(), sepflag(0, 2));
    set(f.integer_consecutive_digit_separator(), sepflag(0, 3));
    set(f.fraction_internal_digit_separator(), sepflag(1, 0));
    set(f.fraction_leading_digit_separator(), sepflag(1, 1));
    set(f.fraction_trailing_digit_separator(), sepflag(1, 2));
    set(f.fraction_consecutive_digit_separator(), sepflag(1, 3));
    set(f.exponent_internal_digit_separator(), sepflag(2, 0));
    set(f.exponent_leading_digit_separator(), sepflag(2, 1));
    set(f.exponent_trailing_digit_separator(), sepflag(2, 2));
    set(f.exponent_consecutive_digit_separator(), sepflag(2, 3));
    set(f.special_digit_separator(), SSEP);
    let radix = f.mantissa_radix() as u8;
    let base = f.exponent_base() as u8;
    let xr = f.exponent_radix() as u8;
    Desc {
        radix,
        base: if base == radix { 0 } else { base },
        exp_radix: if xr == radix { 0 } else { xr },
        sep: f.digit_separator(),
        prefix: f.base_prefix(),
        suffix: f.base_suffix(),
        flags,
    }
}

// ---- const PRNG ----
pub const fn mix(mut z: u64) -> u64 {
    z = z.wrapping_add(0x9E3779B97F4A7C15);
    z = (z ^ (z >> 30)).wrapping_mul(0xBF58476D1CE4E5B9);
    z = (z ^ (z >> 27)).wrapping_mul(0x94D049BB133111EB);
    z ^ (z >> 31)
}
const fn rnd(seed: u64, i: u64, k: u64) -> u64 {
    mix(mix(seed ^ 0x5eed).wrapping_add(mix(i.wrapping_mul(0x100000001b3)).wrapping_add(k.wrapping_mul(0x2545F4914F6CDD1D))))
}

pub const fn parse_u64(s: &str) -> u64 {
    let b = s.as_bytes();
    let mut v = 0u64;
    let mut i = 0;
    while i < b.len() {
        if b[i] >= b'0' && b[i] <= b'9' {
            v = v.wrapping_mul(10).wrapping_add((b[i] - b'0') as u64);
        }
        i += 1;
    }
    v
}
/// seed of the compile-time format sample (VERIF_FMT_SEED at build time; cargo rebuilds when it changes)
pub const FMT_SEED: u64 = match option_env!("VERIF_FMT_SEED") {
    Some(s) => parse_u64(s),
    None => 0,
};

const HAVE_POW2: bool = cfg!(feature = "power-of-two");
const HAVE_RADIX: bool = cfg!(feature = "radix");

/// repair contradictory syntax flag pairs so the description is valid
const fn repair(mut f: u64, salt: u64) -> u64 {
    if f & NPMS != 0 && f & RMS != 0 {
        f &= !(if salt & 1 == 0 { NPMS } else { RMS });
    }
    if f & NPES != 0 && f & RES != 0 {
        f &= !(if salt & 2 == 0 { NPES } else { RES });
    }
    if f & NEN != 0 && f & REN != 0 {
        f &= !(if salt & 4 == 0 { NEN } else { REN });
    }
    if f & NSP != 0 {
        f &= !(CSS | SSEP);
    }
    f
}

/// radix flavour for index i: decimal mostly, hex with prefix/suffix and others when the features allow
const fn flavour(d: Desc, seed: u64, i: u64) -> Desc {
    let r = rnd(seed, i, 99);
    let mut d = d;
    match r % 8 {
        0 | 1 if HAVE_POW2 => {
            d.radix = 16;
            d.prefix = b'x';
            if r & 256 != 0 {
                d.suffix = b'h';
            }
            // hex with decimal exponent digits and base 2 (C hex float) or plain hex
            if r & 512 != 0 {
                d.base = 2;
                d.exp_radix = 10;
            }
        },
        2 if HAVE_POW2 => {
            d.radix = 2;
            d.prefix = b'b';
            // binary mantissa with decimal exponent digits (exponent digits that are not mantissa digits)
            if r & 512 != 0 {
                d.exp_radix = 10;
            }
        },
        3 if HAVE_RADIX => {
            d.radix = 3;
            if r & 256 != 0 {
                d.suffix = b't';
            }
            if r & 512 != 0 {
                d.exp_radix = 10;
            }
        },
        4 if HAVE_POW2 => {
            d.radix = 8;
            d.prefix = b'o';
            d.suffix = if r & 256 != 0 { b'q' } else { 0 };
            if r & 1024 != 0 {
                d.exp_radix = 10;
            }
        },
        _ => {
            // decimal; sometimes with a 'd' prefix/suffix
            if r & 256 != 0 && r & 512 != 0 {
                d.prefix = b'd';
            }
            if r & 1024 != 0 && r & 2048 != 0 {
                d.suffix = if d.prefix == b'd' { b'm' } else { b'd' };
            }
        },
    }
    d
}

pub const SET_SYNTAX: u32 = 0;
pub const SET_SEP: u32 = 1;
pub const SET_PREBUILT: u32 = 2;
pub const SET_INVALID: u32 = 3;
pub const SET_BASIC: u32 = 4;
pub const SET_WRITE: u32 = 5;

/// syntax flags that the writers read or that constrain what the parser accepts of the writers' output
pub const WFLAGS: [u64; 16] = [RMS, NPMS, RES, NPES, NEN, REN, NEWF, RID, RFD, RED, RMD, NSP, CSS, NILZ, NFLZ, CSE];
const WRADIX: [u8; 24] = [3, 5, 6, 7, 9, 11, 12, 13, 14, 15, 17, 18, 20, 21, 22, 23, 24, 25, 26, 28, 30, 33, 35, 36];

/// radix flavour of write-format index i
const fn wflavour(d: Desc, seed: u64, i: u64) -> Desc {
    let r = rnd(seed, i, 98);
    let mut d = d;
    match i % 12 {
        3 if HAVE_POW2 => {
            d.radix = 16;
            if r & 1 != 0 {
                d.prefix = b'x';
            }
        },
        4 if HAVE_POW2 => {
            d.radix = 16;
            d.base = 2;
            d.exp_radix = 10;
        },
        5 if HAVE_POW2 => {
            d.radix = [2u8, 4, 8, 32][(r % 4) as usize];
        },
        6 if HAVE_POW2 => {
            let m = [(4u8, 2u8), (8, 2), (32, 2), (16, 4), (16, 2)];
            let k = (r % 5) as usize;
            d.radix = m[k].0;
            d.base = m[k].1;
            d.exp_radix = if r & 64 != 0 { 10 } else { m[k].1 };
        },
        7 | 8 if HAVE_RADIX => {
            d.radix = WRADIX[((r >> 8) % 24) as usize];
        },
        9 if HAVE_RADIX => {
            d.radix = WRADIX[((r >> 8) % 24) as usize];
            d.exp_radix = 10;
        },
        10 if HAVE_POW2 => {
            d.radix = [2u8, 8, 32, 4][(r % 4) as usize];
            d.exp_radix = 10;
        },
        _ => {},
    }
    d
}

/// the format description for (set, seed, index)
pub const fn desc_for(set: u32, seed: u64, i: usize) -> Desc {
    let iu = i as u64;
    let mut d = Desc::STANDARD;
    match set {
        SET_SYNTAX => {
            // 0: standard; 1..=18 each flag toggled alone; 19..=49 fixed informative pairs; rest seeded combos
            let mut f = DEFAULT_FLAGS;
            if i == 0 {
            } else if i <= 18 {
                f ^= 1 << (i - 1);
            } else if i < 50 {
                let a = rnd(1, iu, 0) % 18;
                let b = rnd(1, iu, 1) % 18;
                f ^= 1 << a;
                f ^= 1 << b;
            } else {
                // each flag toggled with probability ~1/4 (seeded)
                let mut k = 0;
                while k < 18 {
                    if rnd(seed, iu, k as u64) % 4 == 0 {
                        f ^= 1 << k;
                    }
                    k += 1;
                }
            }
            d.flags = repair(f, rnd(seed, iu, 50));
            if i >= 12 {
                d = flavour(d, if i < 50 { 1 } else { seed }, iu);
            }
            // formats built to exercise prefix/suffix case flags
            if i == 17 || i == 18 {
                if HAVE_POW2 {
                    d.radix = 16;
                    d.prefix = b'x';
                    d.suffix = b'h';
                } else {
                    d.prefix = b'd';
                    d.suffix = b'd';
                }
            }
        },
        SET_SEP => {
            // ILTC combos (1..=15): uniform over components (i in 0..15), one component only (15..60),
            // mixed triples (seeded) afterwards; radix flavours and special flag vary with i
            d.sep = b'_';
            let mut f = DEFAULT_FLAGS;
            if i < 15 {
                let combo = (i + 1) as u64;
                let mut c = 0;
                while c < 3 {
                    f |= combo << (20 + c * 4);
                    c += 1;
                }
            } else if i < 60 {
                let combo = ((i - 15) % 15 + 1) as u64;
                let c = ((i - 15) / 15) as u32;
                f |= combo << (20 + c * 4);
            } else {
                let mut c = 0;
                while c < 3 {
                    let combo = rnd(seed, iu, c as u64) % 16;
                    f |= combo << (20 + c * 4);
                    c += 1;
                }
                if (f >> 20) & 0xfff == 0 {
                    f |= 1 << 20;
                }
            }
            // consecutive alone is invalid: add internal
            let mut c = 0;
            while c < 3 {
                if (f >> (20 + c * 4)) & 0xf == 8 {
                    f |= 1 << (20 + c * 4);
                }
                c += 1;
            }
            if rnd(seed, iu, 7) % 3 == 0 {
                f |= SSEP;
            }
            // a few syntax flags mixed in for the later indices
            if i >= 60 && rnd(seed, iu, 8) % 2 == 0 {
                let mut k = 0;
                while k < 18 {
                    if rnd(seed, iu, 20 + k as u64) % 8 == 0 {
                        f ^= 1 << k;
                    }
                    k += 1;
                }
            }
            d.flags = repair(f, rnd(seed, iu, 50));
            if i >= 20 && i % 3 == 0 {
                d = flavour(d, seed, iu);
            }
            if i % 7 == 3 {
                d.sep = b',';
            } else if i % 7 == 5 {
                d.sep = b'\'';
            }
        },
        SET_BASIC => {
            // formats without the `format` feature: radix variants only
            let r = [10u8, 2, 4, 8, 16, 32, 3, 5, 7, 12, 20, 24, 36, 11, 17, 29];
            let want = r[i % r.len()];
            if want == 10 || (HAVE_POW2 && (want as u32).is_power_of_two()) || HAVE_RADIX {
                d.radix = want;
            }
            if HAVE_POW2 && i >= 16 && i < 21 {
                // mixed bases
                let m = [(4u8, 2u8), (8, 2), (16, 2), (32, 2), (16, 4)];
                d.radix = m[i - 16].0;
                d.base = m[i - 16].1;
                d.exp_radix = 10;
            }
        },
        SET_WRITE => {
            // 0 standard; 1..=16 each write-relevant flag toggled alone (decimal); then radix flavours with
            // seeded flag combinations; some with digit separators configured (the writers must ignore them)
            let mut f = DEFAULT_FLAGS;
            if i == 0 {
            } else if i <= 16 {
                f ^= WFLAGS[i - 1];
            } else {
                let mut k = 0;
                while k < 16 {
                    if rnd(seed, iu, k as u64) % 4 == 0 {
                        f ^= WFLAGS[k];
                    }
                    k += 1;
                }
                if rnd(seed, iu, 40) % 4 == 0 {
                    d.sep = b'_';
                    let mut c = 0;
                    while c < 3 {
                        let combo = rnd(seed, iu, 41 + c as u64) % 8;
                        f |= combo << (20 + c * 4);
                        c += 1;
                    }
                    if (f >> 20) & 0xfff == 0 {
                        f |= 1 << 20;
                    }
                }
            }
            d.flags = repair(f, rnd(seed, iu, 50));
            if i > 16 {
                d = wflavour(d, seed, iu);
            }
        },
        SET_INVALID => {
            // each index breaks one validity rule (the reference predicate decides which error is expected)
            d = desc_for(SET_SYNTAX, seed, 50 + i);
            match i % 16 {
                0 => d.flags |= NPMS | RMS,
                1 => d.flags |= NPES | RES,
                2 => d.flags |= NEN | REN,
                3 => d.flags |= NSP | CSS,
                4 => {
                    d.sep = b'_';
                    d.flags |= sepflag(0, 3);
                    d.flags &= !(sepflag(0, 0) | sepflag(0, 1) | sepflag(0, 2));
                },
                5 => {
                    d.sep = b'_';
                    d.flags |= sepflag(1, 3) | sepflag(0, 0);
                    d.flags &= !(sepflag(1, 0) | sepflag(1, 1) | sepflag(1, 2));
                },
                6 => {
                    d.sep = b'_';
                    d.flags |= sepflag(2, 3) | sepflag(0, 0);
                    d.flags &= !(sepflag(2, 0) | sepflag(2, 1) | sepflag(2, 2));
                },
                7 => {
                    d.sep = b'1';
                    d.flags |= sepflag(0, 0);
                },
                8 => {
                    d.sep = b'+';
                    d.flags |= sepflag(0, 0);
                },
                9 => {
                    d.sep = 0x80;
                    d.flags |= sepflag(0, 0);
                },
                10 => d.prefix = b'1',
                11 => d.suffix = b'-',
                12 => {
                    d.sep = b'_';
                    d.prefix = b'_';
                    d.flags |= sepflag(0, 0);
                },
                13 => d.radix = 1,
                14 => d.radix = 37,
                _ => {
                    d.prefix = b'q';
                    d.suffix = b'q';
                },
            }
        },
        _ => {},
    }
    d
}

/// prebuilt formats of lexical (need the `format` and `power-of-two` features)
#[cfg(all(feature = "format", feature = "power-of-two"))]
pub mod prebuilt {
    use lexical_core::format::*;
    pub const ALL: [u128; 147] = [
        RUST_LITERAL, RUST_STRING, PYTHON_LITERAL, PYTHON_STRING, PYTHON3_LITERAL, PYTHON3_STRING, PYTHON36_LITERAL, PYTHON35_LITERAL,
        PYTHON2_LITERAL, PYTHON2_STRING, CXX_LITERAL, CXX_STRING, CXX_HEX_LITERAL, CXX_HEX_STRING, CXX20_LITERAL, CXX20_STRING,
        CXX20_HEX_LITERAL, CXX20_HEX_STRING, CXX17_LITERAL, CXX17_STRING, CXX17_HEX_LITERAL, CXX17_HEX_STRING, CXX14_LITERAL, CXX14_STRING,
        CXX14_HEX_STRING, CXX11_LITERAL, CXX11_STRING, CXX11_HEX_STRING, CXX03_LITERAL, CXX03_STRING, CXX98_LITERAL, CXX98_STRING,
        C_LITERAL, C_STRING, C_HEX_LITERAL, C_HEX_STRING, C18_LITERAL, C18_STRING, C18_HEX_LITERAL, C18_HEX_STRING, C11_LITERAL, C11_STRING,
        C11_HEX_LITERAL, C11_HEX_STRING, C99_LITERAL, C99_STRING, C99_HEX_LITERAL, C99_HEX_STRING, C90_LITERAL, C90_STRING, C90_HEX_STRING,
        C89_LITERAL, C89_STRING, C89_HEX_STRING, RUBY_LITERAL, RUBY_OCTAL_LITERAL, RUBY_STRING, SWIFT_LITERAL, SWIFT_STRING, GO_LITERAL,
        GO_STRING, HASKELL_LITERAL, HASKELL_STRING, JAVASCRIPT_LITERAL, JAVASCRIPT_STRING, PERL_LITERAL, PERL_STRING, PHP_LITERAL, PHP_STRING,
        JAVA_LITERAL, JAVA_STRING, R_LITERAL, R_STRING, KOTLIN_LITERAL, KOTLIN_STRING, JULIA_LITERAL, JULIA_STRING, JULIA_HEX_LITERAL,
        JULIA_HEX_STRING, CSHARP_LITERAL, CSHARP_STRING, CSHARP7_LITERAL, CSHARP7_STRING, CSHARP6_LITERAL, CSHARP6_STRING, CSHARP5_LITERAL,
        CSHARP5_STRING, CSHARP4_LITERAL, CSHARP4_STRING, CSHARP3_LITERAL, CSHARP3_STRING, CSHARP2_LITERAL, CSHARP2_STRING, CSHARP1_LITERAL,
        CSHARP1_STRING, KAWA_LITERAL, KAWA_STRING, GAMBITC_LITERAL, GAMBITC_STRING, GUILE_LITERAL, GUILE_STRING, CLOJURE_LITERAL,
        CLOJURE_STRING, ERLANG_LITERAL, ERLANG_STRING, ELM_LITERAL, ELM_STRING, SCALA_LITERAL, SCALA_STRING, ELIXIR_LITERAL, ELIXIR_STRING,
        FORTRAN_LITERAL, FORTRAN_STRING, D_LITERAL, D_STRING, COFFEESCRIPT_LITERAL, COFFEESCRIPT_STRING, COBOL_LITERAL, COBOL_STRING,
        FSHARP_LITERAL, FSHARP_STRING, VB_LITERAL, VB_STRING, OCAML_LITERAL, OCAML_STRING, OBJECTIVEC_LITERAL, OBJECTIVEC_STRING,
        REASONML_LITERAL, REASONML_STRING, OCTAVE_LITERAL, OCTAVE_STRING, MATLAB_LITERAL, MATLAB_STRING, ZIG_LITERAL, ZIG_STRING, SAGE_LITERAL,
        SAGE_STRING, JSON, TOML, YAML, XML, SQLITE, POSTGRESQL, MYSQL, MONGODB, PERMISSIVE, IGNORE,
    ];
    /// order in which prebuilt formats are dealt to parts: a stride walk so that part 0 sees every language family
    pub const fn pick(i: usize) -> u128 {
        ALL[(i * 37) % 147]
    }
}
