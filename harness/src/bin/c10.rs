//! C10 / C11 on the default (STANDARD) API for all 14 numeric types: hostile byte strings through
//! `parse` and `parse_partial` under M-panic + M-guard; totality (no panic, indices within the input)
//! and partial/complete agreement.  `cases=<file>` replays a case file (one shown-encoded input per
//! line) instead of generating: that is how the same inputs are executed under Miri.
use std::collections::BTreeMap;
use vharness::exec::*;
use vharness::guard::{self, Arena};
use vharness::report::{self, obj, show, Args, Report};
use vharness::rng::Rng;

struct Cx<'a> {
    rep: &'a Report,
    cfg: String,
    prop: Option<String>,
    counts: BTreeMap<&'static str, u64>,
    arena: Arena,
    n: u64,
}

fn viol(cx: &Cx, prop: &str, class: &str, ty: &str, input: &[u8], detail: String) {
    if let Some(p) = &cx.prop {
        if p != prop {
            return;
        }
    }
    let kind = if ty.starts_with('f') { "float" } else { "int" };
    cx.rep.violation(
        &format!("{prop}|{class}|{kind}|default-api"),
        obj(&[
            ("property", prop.into()),
            ("config", cx.cfg.clone()),
            ("profile", vharness::profile_name().into()),
            ("type", ty.into()),
            ("input", show(&input[..input.len().min(300)])),
            ("input_len", input.len().to_string()),
            ("detail", detail),
        ]),
    );
}

trait Val: Copy + std::fmt::Debug + lexical_core::FromLexical {
    const NAME: &'static str;
    fn same(a: Self, b: Self) -> bool;
    fn is_zero(self) -> bool;
    /// Rust's own `FromStr` for the type (the grammar STANDARD is documented to accept)
    fn std_parse(s: &str) -> Option<Self>;
}
macro_rules! val_int { ($($t:ty)*) => {$( impl Val for $t { const NAME: &'static str = stringify!($t); fn same(a: Self, b: Self) -> bool { a == b } fn is_zero(self) -> bool { self == 0 } fn std_parse(s: &str) -> Option<Self> { s.parse().ok() } } )*}; }
val_int! { u8 u16 u32 u64 u128 usize i8 i16 i32 i64 i128 isize }
impl Val for f32 {
    const NAME: &'static str = "f32";
    fn same(a: Self, b: Self) -> bool {
        (a.is_nan() && b.is_nan()) || a.to_bits() == b.to_bits()
    }
    fn is_zero(self) -> bool {
        self == 0.0
    }
    fn std_parse(s: &str) -> Option<Self> {
        s.parse().ok()
    }
}
impl Val for f64 {
    const NAME: &'static str = "f64";
    fn same(a: Self, b: Self) -> bool {
        (a.is_nan() && b.is_nan()) || a.to_bits() == b.to_bits()
    }
    fn is_zero(self) -> bool {
        self == 0.0
    }
    fn std_parse(s: &str) -> Option<Self> {
        s.parse().ok()
    }
}

fn fmt<T: Val>(r: &R<T>) -> String {
    match r {
        R::Ok(v, n) => format!("Ok({v:?}, n={n})"),
        R::Err(e) => format!("Err({e:?})"),
        R::Panic(p) => format!("Panic({p})"),
    }
}

fn judge<T: Val>(cx: &mut Cx, input: &[u8]) {
    cx.n += 1;
    let place = place_for(cx.n);
    guard::set_crumb(&input[..input.len().min(400)]);
    let rc = parse_complete::<T>(&mut cx.arena, input, place);
    let rp = parse_partial::<T>(&mut cx.arena, input, place);
    *cx.counts.entry("evals").or_insert(0) += 1;
    for (entry, r) in [("parse", &rc), ("parse_partial", &rp)] {
        match r {
            R::Panic(p) => viol(cx, "C10", "panic", T::NAME, input, format!("{entry}: {p}")),
            R::Ok(_, n) if *n > input.len() => viol(cx, "C10", "count-beyond-input", T::NAME, input, format!("{entry}: n={n}")),
            R::Err(e) if err_index(e) > input.len() as i64 => viol(cx, "C10", "index-beyond-input", T::NAME, input, format!("{entry}: {e:?}")),
            _ => {},
        }
    }
    if matches!(rc, R::Panic(_)) || matches!(rp, R::Panic(_)) {
        return;
    }
    match (&rc, &rp) {
        (R::Ok(v, _), R::Ok(w, n)) if *n == input.len() && T::same(*v, *w) => {},
        (R::Ok(..), _) => viol(cx, "C11", "complete-ok-partial-differs", T::NAME, input, format!("complete={} partial={}", fmt(&rc), fmt(&rp))),
        (R::Err(_), R::Ok(_, n)) if *n == input.len() => viol(cx, "C11", "partial-full-complete-err", T::NAME, input, format!("complete={} partial={}", fmt(&rc), fmt(&rp))),
        _ => {},
    }
    // ---- C12: the STANDARD format accepts exactly Rust's FromStr grammar (plus the special strings, which FromStr has too)
    if let Ok(text) = std::str::from_utf8(input) {
        let std = T::std_parse(text);
        match (&rc, std) {
            (R::Ok(v, _), Some(w)) => {
                if !T::same(*v, w) {
                    viol(cx, "C12", "standard-value-differs-from-fromstr", T::NAME, input, format!("lexical {} core {w:?}", fmt(&rc)));
                }
                *cx.counts.entry("c12.fromstr-both-accept").or_insert(0) += 1;
            },
            (R::Err(_), None) => *cx.counts.entry("c12.fromstr-both-reject").or_insert(0) += 1,
            (R::Ok(..), None) => viol(cx, "C12", "standard-accepts-what-fromstr-rejects", T::NAME, input, fmt(&rc)),
            (R::Err(e), Some(w)) => viol(cx, "C12", "standard-rejects-what-fromstr-accepts", T::NAME, input, format!("{e:?}; core gives {w:?}")),
            _ => {},
        }
    }
    if let R::Ok(w, n) = &rp {
        if *n > 0 && *n < input.len() {
            let pre = parse_complete::<T>(&mut cx.arena, &input[..*n], place);
            if !matches!(&pre, R::Ok(v, _) if T::same(*v, *w)) {
                let sign_only = *n == 1 && (input[0] == b'+' || input[0] == b'-') && w.is_zero();
                let class = if sign_only { "prefix-not-complete:partial-consumed-only-sign-or-base-prefix" } else { "prefix-not-complete" };
                viol(cx, "C11", class, T::NAME, input, format!("partial={} complete(prefix)={}", fmt(&rp), fmt(&pre)));
            }
        }
    }
}

/// integers with multi-digit (SWAR) parsing switched on: totality, and the same results as digit-by-digit parsing
fn judge_md<T: Val + PartialEq + lexical_core::FromLexicalWithOptions<Options = lexical_core::ParseIntegerOptions>>(cx: &mut Cx, input: &[u8]) {
    const STD: u128 = lexical_core::format::STANDARD;
    cx.n += 1;
    let place = place_for(cx.n);
    guard::set_crumb(&input[..input.len().min(400)]);
    let md = lexical_core::ParseIntegerOptions::builder().no_multi_digit(false).build_unchecked();
    let mc = parse_complete_opt::<T, STD>(&mut cx.arena, input, place, &md);
    let mp = parse_partial_opt::<T, STD>(&mut cx.arena, input, place, &md);
    let rc = parse_complete::<T>(&mut cx.arena, input, place);
    let rp = parse_partial::<T>(&mut cx.arena, input, place);
    *cx.counts.entry("evals.multi-digit").or_insert(0) += 1;
    for (entry, r) in [("parse_with_options/multi-digit", &mc), ("parse_partial_with_options/multi-digit", &mp)] {
        match r {
            R::Panic(p) => viol(cx, "C10", "panic", T::NAME, input, format!("{entry}: {p}")),
            R::Ok(_, n) if *n > input.len() => viol(cx, "C10", "count-beyond-input", T::NAME, input, format!("{entry}: n={n}")),
            R::Err(e) if err_index(e) > input.len() as i64 => viol(cx, "C10", "index-beyond-input", T::NAME, input, format!("{entry}: {e:?}")),
            _ => {},
        }
    }
    if mc != rc || mp != rp {
        viol(cx, "C04", "no_multi_digit-changes-result", T::NAME, input, format!("digit-by-digit: {} / {}  multi-digit: {} / {}", fmt(&rc), fmt(&rp), fmt(&mc), fmt(&mp)));
    }
}

fn judge_all(cx: &mut Cx, input: &[u8]) {
    judge_md::<u32>(cx, input);
    judge_md::<i32>(cx, input);
    judge_md::<u64>(cx, input);
    judge_md::<i64>(cx, input);
    judge_md::<u128>(cx, input);
    judge_md::<i128>(cx, input);
    judge::<f64>(cx, input);
    judge::<f32>(cx, input);
    judge::<u8>(cx, input);
    judge::<i8>(cx, input);
    judge::<u16>(cx, input);
    judge::<i16>(cx, input);
    judge::<u32>(cx, input);
    judge::<i32>(cx, input);
    judge::<u64>(cx, input);
    judge::<i64>(cx, input);
    judge::<u128>(cx, input);
    judge::<i128>(cx, input);
    judge::<usize>(cx, input);
    judge::<isize>(cx, input);
}

/// hostile inputs: every byte value, truncations at every position, long inputs
pub fn workload(rng: &mut Rng, thorough: bool, small: bool, shard: usize, nshards: usize, sink: &mut dyn FnMut(&[u8])) {
    let seeds: Vec<&[u8]> = vec![
        b"0", b"-0", b"+1", b"123456789", b"12345678", b"1234567", b"18446744073709551615", b"18446744073709551616", b"-9223372036854775808",
        b"340282366920938463463374607431768211455", b"-170141183460469231731687303715884105728", b"255", b"256", b"-128", b"-129", b"65535", b"1.5",
        b"-1.5e10", b"1e-400", b"1e400", b"0.000000000000000000000000000000000001", b"123456789012345678901234567890.5e-20", b"1.7976931348623157e308",
        b"2.2250738585072011e-308", b"4.9e-324", b"NaN", b"inf", b"-infinity", b"Infinity", b"nan", b".5", b"5.", b".", b"e5", b"1e", b"1e+", b"1e+5", b"1E5",
        b"0x10", b"1_000", b"1,000", b" 1", b"1 ", b"\t1", b"+", b"-", b"+-1", b"--1", b"1-", b"1e5e5", b"1.2.3", b"9007199254740993", b"9007199254740992.5",
        b"0.1e1", b"00000000000000000000000000001", b"1e00000000000000000000000005", b"1e99999999999999999999", b"-1e-99999999999999999999",
        b"123456789012345678", b"1234567890123456789", b"12345678901234567890", b"0.30000000000000004", b"5e-324", b"2.4703282292062327e-324",
        b"2.4703282292062328e-324", b"8.5e21", b"1e23", b"179769313486231580793728971405303415079934132710037826936173778980444968292764750946649017977587207096330286416692887910946555547851940402630657488671505820681908902000708383676273854845817711531764475730270069855571366959622842914819860834936475292719074168444365510704342711559699508093042880177904174497791.9999999999999999999999999999999999999999999999999999999999999999999999",
    ];
    let mut idx = 0usize;
    let mut emit = |s: &[u8], sink: &mut dyn FnMut(&[u8])| {
        if idx % nshards == shard {
            sink(s);
        }
        idx += 1;
    };
    // all strings of length <= 2 over all 256 byte values (thorough: 3 over a 64-value subset + 2 full)
    if !small {
        emit(b"", sink);
        for a in 0..=255u8 {
            emit(&[a], sink);
        }
        for a in 0..=255u8 {
            for b in 0..=255u8 {
                emit(&[a, b], sink);
            }
        }
        let sub: Vec<u8> = b"+-.0159eEnNaAiIfFtTyY_, xX\x00\x2f\x3a\x40\x5b\x60\x7b\x7f\x80\xb0\xff".to_vec();
        for &a in &sub {
            for &b in &sub {
                for &c in &sub {
                    emit(&[a, b, c], sink);
                    if thorough {
                        for &d in &sub {
                            emit(&[a, b, c, d], sink);
                        }
                    }
                }
            }
        }
    }
    for s in &seeds {
        // every prefix and suffix, a byte of every value spliced at every position (sampled), duplicated/removed bytes
        for cut in 0..=s.len() {
            emit(&s[..cut], sink);
            emit(&s[cut..], sink);
        }
        let npos = if small { 2 } else { s.len().min(24) };
        for k in 0..npos {
            let pos = if s.len() <= 24 { k.min(s.len()) } else { rng.below(s.len() as u64 + 1) as usize };
            let vals: Vec<u8> = if small { vec![0x00, 0x80, b'_'] } else if thorough { (0..=255).collect() } else { (0..=255).step_by(5).chain([0x2f, 0x3a, 0x80, 0xb0, 0xff]).collect() };
            for v in vals {
                let mut t = s.to_vec();
                t.insert(pos, v);
                emit(&t, sink);
                if pos < s.len() {
                    let mut u = s.to_vec();
                    u[pos] = v;
                    emit(&u, sink);
                }
            }
        }
    }
    // random byte strings with digit-heavy distribution, lengths 0..40 (every alignment against the guard page)
    let nrand = if small { 200 } else if thorough { 3_000_000 } else { 200_000 };
    for _ in 0..nrand {
        let len = rng.below(41) as usize;
        let mode = rng.below(4);
        let t: Vec<u8> = (0..len)
            .map(|_| match (mode, rng.below(10)) {
                (0, _) => rng.next_u64() as u8,
                (_, 0) => rng.next_u64() as u8,
                (_, 1) => *rng.pick(b"+-.eE_,"),
                (2, 2) => *rng.pick(b"nNaAiIfFtTyY"),
                _ => b'0' + rng.below(10) as u8,
            })
            .collect();
        emit(&t, sink);
    }
    // long inputs
    let lens: &[usize] = if small { &[300] } else if thorough { &[100, 767, 768, 769, 1000, 4096, 16384] } else { &[100, 768, 4096, 16384] };
    for &l in lens {
        let digits: Vec<u8> = (0..l).map(|_| b'0' + rng.below(10) as u8).collect();
        emit(&digits, sink);
        emit(&vec![b'0'; l], sink);
        emit(&vec![b'9'; l], sink);
        let mut t = b"0.".to_vec();
        t.extend(vec![b'0'; l]);
        t.push(b'1');
        emit(&t, sink);
        let mut t = digits.clone();
        t.insert(l / 2, b'.');
        emit(&t, sink);
        let mut t = b"1e".to_vec();
        t.extend(&digits);
        emit(&t, sink);
        let mut t = b"1e-".to_vec();
        t.extend(vec![b'0'; l]);
        t.push(b'5');
        emit(&t, sink);
        let mut t = digits.clone();
        t.extend(b"e-");
        t.extend(&digits[..l.min(400)]);
        emit(&t, sink);
        emit(&vec![b'_'; l], sink);
        emit(&vec![b'-'; l], sink);
        emit(&vec![b'.'; l], sink);
        let mut t = digits.clone();
        t.push(0x80);
        emit(&t, sink);
    }
}

fn main() {
    let args = Args::parse();
    report::quiet_panics();
    guard::install();
    let rep = Report::new();
    let cfg = vharness::config_name();
    rep.note("config", cfg.clone());
    rep.note("profile", vharness::profile_name().to_string());
    let prop = args.get("prop").map(|s| s.to_string());
    let thorough = args.thorough();
    let small = args.get("small").is_some();
    // dump=<file>: write the (small) workload as a case file and exit (fed to the Miri run)
    if let Some(path) = args.get("dump") {
        let mut out = String::new();
        let mut rng = Rng::stream(args.seed, 77);
        workload(&mut rng, false, true, 0, 1, &mut |s| {
            out.push_str(&show(s));
            out.push('\n');
        });
        std::fs::write(path, out).expect("write case file");
        return;
    }
    if let Some(path) = args.get("cases") {
        let text = std::fs::read_to_string(path).expect("case file");
        let mut cx = Cx { rep: &rep, cfg: cfg.clone(), prop: prop.clone(), counts: BTreeMap::new(), arena: Arena::new(1 << 15), n: 0 };
        let stride = args.get_u64("stride", 1) as usize;
        let off = args.get_u64("offset", 0) as usize;
        for (i, line) in text.lines().enumerate() {
            if i % stride == off {
                judge_all(&mut cx, &report::unshow(line));
            }
        }
        rep.merge_counts(&cx.counts);
        rep.count("distinct_nontrivial", cx.n / 14);
        args.finish(&rep);
    }
    if let Some(r) = args.get("replay") {
        let mut cx = Cx { rep: &rep, cfg: cfg.clone(), prop: prop.clone(), counts: BTreeMap::new(), arena: Arena::new(1 << 15), n: 0 };
        judge_all(&mut cx, &report::unshow(r));
        args.finish(&rep);
    }
    let total = std::sync::Mutex::new(0u64);
    report::parallel(args.threads, |shard, nshards| {
        let mut cx = Cx { rep: &rep, cfg: cfg.clone(), prop: prop.clone(), counts: BTreeMap::new(), arena: Arena::new(1 << 15), n: shard as u64 };
        let mut rng = Rng::stream(args.seed, 77);
        let mut k = 0u64;
        workload(&mut rng, thorough, small, shard, nshards, &mut |s| {
            judge_all(&mut cx, s);
            k += 1;
            if k % 100_003 == 1 {
                cx.rep.sample(format!("default-api all 14 types: {}", show(&s[..s.len().min(60)])));
            }
        });
        rep.merge_counts(&cx.counts);
        *total.lock().unwrap() += k;
    });
    rep.count("distinct_nontrivial", *total.lock().unwrap());
    args.finish(&rep);
}
