//! format-table write executor: set SET_WRITE, part 1 (see ../wexec_main.rs)
const SET: u32 = vharness::fmttab::SET_WRITE;
const PART: usize = 1;
const fn fmt_of(i: usize) -> u128 {
    vharness::fmttab::build(&vharness::fmttab::desc_for(SET, vharness::fmttab::FMT_SEED, i))
}
fn desc_of<const FMT: u128>(i: usize) -> vharness::fmttab::Desc {
    vharness::fmttab::desc_for(SET, vharness::fmttab::FMT_SEED, i)
}
include!("../wexec_main.rs");
