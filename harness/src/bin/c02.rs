//! C02: float -> decimal round-trips; non-compact output is the shortest, closest decimal.
use std::cmp::Ordering;
use std::collections::BTreeMap;
use vharness::big::Big;
use vharness::exec::*;
use vharness::fgen;
use vharness::oracle::{self, Exact, Kind};
use vharness::report::{self, obj, show, Args, Report};
use vharness::rng::Rng;

const STANDARD: u128 = lexical_core::format::STANDARD;

/// significant digits (no leading/trailing zeros) and the power of ten of the last one
fn normalise(p: &oracle::Parts) -> Option<(Vec<u8>, i64)> {
    let mut all = p.int_digits.clone();
    all.extend_from_slice(&p.frac_digits);
    let mut e: i64 = 0;
    for &d in &p.exp_digits {
        e = e.checked_mul(10)?.checked_add(d as i64)?;
    }
    if p.exp_neg {
        e = -e;
    }
    e -= p.frac_digits.len() as i64;
    while let Some(&0) = all.last() {
        all.pop();
        e += 1;
    }
    let lead = all.iter().take_while(|&&d| d == 0).count();
    Some((all[lead..].to_vec(), e))
}

/// |a - x| compared with |b - x|, x = m*2^p, a = da*10^ea, b = db*10^eb   (all exact)
fn cmp_dist(m: u64, p: i64, da: &Big, ea: i64, db: &Big, eb: i64) -> Ordering {
    let k = 0i64.max(-ea).max(-eb) as u64; // multiply by 10^k
    let s = 0i64.max(-p) as u64; // and by 2^s
    let x = Big::from_u64(m).mul(&Big::pow(10, k)).shl((p + s as i64) as u64);
    let a = da.mul(&Big::pow(10, (ea + k as i64) as u64)).shl(s);
    let b = db.mul(&Big::pow(10, (eb + k as i64) as u64)).shl(s);
    let dist = |v: &Big| if v.cmp(&x) == Ordering::Less { x.sub(v) } else { v.sub(&x) };
    dist(&a).cmp(&dist(&b))
}

struct Cx<'a> {
    rep: &'a Report,
    cfg: String,
    compact: bool,
    counts: BTreeMap<&'static str, u64>,
    n: u64,
    exact_every: u64,
    opts: lexical_core::WriteFloatOptions,
}

fn viol<T: LFloat>(cx: &Cx, kind: &str, bits: u64, out: &[u8], extra: String) {
    let k = T::KIND;
    let sig = format!("C02|{}|{}|{}", if cx.compact { "compact" } else { "noncompact" }, k.name(), kind);
    cx.rep.violation(
        &sig,
        obj(&[
            ("property", "C02".into()),
            ("config", cx.cfg.clone()),
            ("type", k.name().into()),
            ("bits", format!("{bits:#x}")),
            ("output", show(out)),
            ("detail", extra),
        ]),
    );
}

fn bump(cx: &mut Cx, k: &'static str) {
    *cx.counts.entry(k).or_insert(0) += 1;
}

fn judge<T: LFloat>(cx: &mut Cx, bits: u64) {
    let k: Kind = T::KIND;
    let abs = bits & k.abs_mask();
    if abs >= k.inf_bits() {
        return;
    }
    cx.n += 1;
    let v = T::from_bits64(bits);
    vharness::guard::set_crumb_bits(if k.mant_bits == 52 { "c02 write f64 bits" } else { "c02 write f32 bits" }, bits);
    let mut buf = [0u8; lexical_core::BUFFER_SIZE];
    let out: Vec<u8> = match report::catch(|| lexical_core::write(v, &mut buf[..lexical_core::BUFFER_SIZE]).to_vec()) {
        Ok(o) => o,
        Err(p) => {
            viol::<T>(cx, "panic", bits, b"", p);
            return;
        },
    };
    bump(cx, if k.mant_bits == 52 { "evals.f64" } else { "evals.f32" });
    // with_options + default options must be the same bytes
    if cx.n % 8 == 0 {
        let mut buf2 = [0u8; lexical_core::BUFFER_SIZE];
        match report::catch(|| lexical_core::write_with_options::<T, STANDARD>(v, &mut buf2[..lexical_core::BUFFER_SIZE], &cx.opts).to_vec()) {
            Ok(o2) if o2 == out => {},
            Ok(o2) => viol::<T>(cx, "with_options-differs", bits, &out, show(&o2)),
            Err(p) => viol::<T>(cx, "panic", bits, b"", p),
        }
    }
    let parts = match oracle::split_simple(&out, 10, 10, b'.', b'e') {
        Some(p) => p,
        None => {
            viol::<T>(cx, "malformed", bits, &out, String::new());
            return;
        },
    };
    let (digits, e10) = match normalise(&parts) {
        Some(x) => x,
        None => {
            viol::<T>(cx, "malformed", bits, &out, "exponent".into());
            return;
        },
    };
    // sign (incl. -0.0)
    if parts.neg != (bits & k.sign_bit() != 0) {
        viol::<T>(cx, "sign", bits, &out, String::new());
        return;
    }
    let exact_now = cx.n % cx.exact_every == 0;
    // 1. round trip: filter through core's parser, exact oracle on a sample and on every disagreement
    let s = std::str::from_utf8(&out).unwrap_or("");
    let rt_core = T::std_parse(s).map(|c| c.bits64() == bits).unwrap_or(false);
    if !rt_core || exact_now {
        let x = parts.exact(10, 10, 10);
        let ok = oracle::is_correctly_rounded(k, &x, abs);
        bump(cx, "roundtrip-exact-checks");
        if !ok {
            viol::<T>(cx, "roundtrip", bits, &out, format!("reparses to {:#x}", oracle::round_nearest_even(k, &x)));
            return;
        }
        if !rt_core {
            cx.rep.inconclusive(format!("core parse of {} disagrees with exact oracle", show(&out)));
        }
    }
    if abs == 0 {
        if !digits.is_empty() {
            viol::<T>(cx, "roundtrip", bits, &out, "zero written with digits".into());
        }
        return;
    }
    let n = digits.len();
    if cx.compact {
        let lim = if k.mant_bits == 52 { 17 } else { 9 };
        if n > lim {
            viol::<T>(cx, "too-many-digits", bits, &out, format!("{n} digits"));
        }
        return;
    }
    // 2. shortest + closest: core's {:e} as witness generator
    let cs = v.std_fmt_e();
    let cparts = oracle::split_simple(cs.as_bytes(), 10, 10, b'.', b'e').expect("core fmt");
    let (cd, ce) = normalise(&cparts).expect("core fmt");
    let (m, p) = k.decode(abs);
    if cd != digits || ce != e10 {
        bump(cx, "core-differs");
        // the witness must itself round-trip (exact check), otherwise it proves nothing
        let cx_exact = cparts.exact(10, 10, 10);
        if !oracle::is_correctly_rounded(k, &cx_exact, abs) {
            cx.rep.inconclusive(format!("core {{:e}} output {cs} does not round-trip per oracle"));
            return;
        }
        if cd.len() < n {
            viol::<T>(cx, "not-shortest", bits, &out, format!("{} digits; {} ({} digits) also round-trips", n, cs, cd.len()));
            return;
        } else if cd.len() == n {
            let a = Big::from_digits(10, &digits);
            let b = Big::from_digits(10, &cd);
            match cmp_dist(m, p, &a, e10, &b, ce) {
                Ordering::Greater => {
                    viol::<T>(cx, "not-closest", bits, &out, format!("{cs} is closer"));
                    return;
                },
                Ordering::Equal => bump(cx, "exact-tie-accepted"),
                Ordering::Less => bump(cx, "closer-than-core"),
            }
        } else {
            bump(cx, "shorter-than-core");
        }
    }
    // 3. independent of core (sampled): no (n-1)-digit decimal round-trips, and the output is the closest n-digit one
    if exact_now {
        bump(cx, "shortest-exact-checks");
        let mant = Big::from_u64(m);
        if n > 1 {
            let (f, kk, _) = fgen::floor_digits(&mant, p, 10, n - 1);
            if f.len() == n - 1 {
                for cand in [f.clone(), fgen::incr(&f, 10)] {
                    let xc = oracle::exact_from_parts(&Big::from_digits(10, &cand), 10, -kk);
                    if oracle::is_correctly_rounded(k, &xc, abs) {
                        viol::<T>(cx, "not-shortest", bits, &out, format!("{}e{} also round-trips", Big::from_digits(10, &cand).to_dec_string(), -kk));
                        return;
                    }
                }
            }
        }
        let (f, kk, exact) = fgen::floor_digits(&mant, p, 10, n);
        if f.len() == n {
            let lo = Big::from_digits(10, &f);
            let hi = Big::from_digits(10, &fgen::incr(&f, 10));
            let mine = Big::from_digits(10, &digits);
            // bring my digits to exponent -kk
            let shift = e10 + kk;
            let mine_scaled = if shift >= 0 { mine.mul(&Big::pow(10, shift as u64)) } else { mine.clone() };
            let is_lo = shift >= 0 && mine_scaled == lo;
            let is_hi = shift >= 0 && mine_scaled == hi;
            if exact {
                if !is_lo {
                    viol::<T>(cx, "not-closest", bits, &out, "value is exactly representable in n digits".into());
                }
            } else if !(is_lo || is_hi) {
                viol::<T>(cx, "not-closest", bits, &out, format!("neither floor nor ceil n-digit decimal: {}e{}", lo.to_dec_string(), -kk));
            } else {
                let c = cmp_dist(m, p, &lo, -kk, &hi, -kk);
                let good = match c {
                    Ordering::Less => is_lo,
                    Ordering::Greater => is_hi,
                    Ordering::Equal => true,
                };
                if !good {
                    // the farther one is allowed only if the closer one does not round-trip
                    let other = if is_lo { &hi } else { &lo };
                    let xo = oracle::exact_from_parts(other, 10, -kk);
                    if oracle::is_correctly_rounded(k, &xo, abs) {
                        viol::<T>(cx, "not-closest", bits, &out, format!("{}e{} is closer and round-trips", other.to_dec_string(), -kk));
                    }
                }
            }
        }
    }
    if cx.n % 3_000_017 == 1 {
        cx.rep.sample(format!("{} {bits:#x} -> {} (core {cs})", k.name(), show(&out)));
    }
}

fn neighbours_of_short_ties(kind: Kind, rng: &mut Rng) -> Vec<u64> {
    // floats adjacent to short decimal halfway points (the interval-endpoint class)
    let mut cases = Vec::new();
    fgen::short_ties(kind, rng, &mut |c| {
        if c.tag == "tie-short-decimal" {
            cases.push(c.text)
        }
    });
    let mut out = Vec::new();
    for t in cases {
        if let Some(p) = oracle::split_simple(&t, 10, 10, b'.', b'e') {
            let x = p.exact(10, 10, 10);
            if let Exact::Rat(..) = x {
                let r = oracle::round_nearest_even(kind, &x);
                for d in [-1i64, 0, 1] {
                    let b = r as i64 + d;
                    if b > 0 && (b as u64) < kind.inf_bits() {
                        out.push(b as u64);
                    }
                }
            }
        }
    }
    out.sort();
    out.dedup();
    out
}

fn main() {
    let args = Args::parse();
    report::quiet_panics();
    vharness::guard::install();
    let rep = Report::new();
    let cfg = vharness::config_name();
    rep.note("config", cfg.clone());
    let thorough = args.thorough();
    let compact = cfg.contains('c');
    let f32_stride: u64 = args.get_u64("f32stride", if thorough { 1 } else { 61 });
    let per_binade = args.get_u64("perbinade", if thorough { 2048 } else { 48 }) as usize;
    let nrand: u64 = args.get_u64("nrand", if thorough { 200_000_000 } else { 3_000_000 });
    let exact_every = args.get_u64("exactevery", if thorough { 64 } else { 16 });
    if f32_stride == 1 {
        rep.note("f32_exhaustive", "true".into());
    }
    if let Some(r) = args.get("replay") {
        let bits = u64::from_str_radix(r.trim_start_matches("0x"), 16).expect("hex bits");
        let mut cx = Cx { rep: &rep, cfg: cfg.clone(), compact, counts: BTreeMap::new(), n: 0, exact_every: 1, opts: lexical_core::WriteFloatOptions::new() };
        if args.get("type") == Some("f32") {
            judge::<f32>(&mut cx, bits);
        } else {
            judge::<f64>(&mut cx, bits);
        }
        rep.merge_counts(&cx.counts);
        args.finish(&rep);
    }
    report::parallel(args.threads, |shard, nshards| {
        let mut cx = Cx { rep: &rep, cfg: cfg.clone(), compact, counts: BTreeMap::new(), n: shard as u64, exact_every, opts: lexical_core::WriteFloatOptions::new() };
        let mut rng = Rng::stream(args.seed, 2000 + shard as u64);
        // f32: strided sweep over all bit patterns (stride 1 = exhaustive), offset by seed
        let off = if f32_stride > 1 { args.seed % f32_stride } else { 0 };
        let total = (1u64 << 32) / f32_stride;
        let (lo, hi) = (total * shard as u64 / nshards as u64, total * (shard as u64 + 1) / nshards as u64);
        for i in lo..hi {
            judge::<f32>(&mut cx, i * f32_stride + off);
        }
        // every binade x mantissa patterns, both types, both signs
        let mut brng = Rng::stream(args.seed, 2);
        let b64 = fgen::binade_bits(oracle::F64, &mut brng, per_binade);
        let b32 = fgen::binade_bits(oracle::F32, &mut brng, per_binade.min(256));
        for (i, &b) in b64.iter().enumerate() {
            if i % nshards == shard {
                judge::<f64>(&mut cx, b);
                judge::<f64>(&mut cx, b | oracle::F64.sign_bit());
                // single-bit and low-pattern mantissas
                if i % 8 == 0 {
                    let base = b & !((1u64 << 52) - 1);
                    for s in 0..52 {
                        judge::<f64>(&mut cx, base | (1u64 << s));
                        judge::<f64>(&mut cx, base | ((1u64 << s) - 1));
                    }
                    for low in 2..40u64 {
                        judge::<f64>(&mut cx, base | low);
                        judge::<f64>(&mut cx, (base | ((1u64 << 52) - 1)) - low);
                    }
                }
            }
        }
        for (i, &b) in b32.iter().enumerate() {
            if i % nshards == shard {
                judge::<f32>(&mut cx, b);
                judge::<f32>(&mut cx, b | oracle::F32.sign_bit());
            }
        }
        if shard == 0 {
            let mut trng = Rng::stream(args.seed, 3);
            for b in neighbours_of_short_ties(oracle::F64, &mut trng) {
                judge::<f64>(&mut cx, b);
            }
            for b in neighbours_of_short_ties(oracle::F32, &mut trng) {
                judge::<f32>(&mut cx, b);
            }
            // integers, powers of ten and of two with neighbours
            for i in 0..200_000u64 {
                judge::<f64>(&mut cx, (i as f64).to_bits());
                judge::<f32>(&mut cx, (i as f32).to_bits() as u64);
            }
            for e in -330i32..=310 {
                let v: f64 = format!("1e{e}").parse().unwrap();
                for d in -3i64..=3 {
                    let b = v.to_bits() as i64 + d;
                    if b >= 0 {
                        judge::<f64>(&mut cx, b as u64);
                    }
                }
                for mult in [2.0f64, 5.0, 9.0, 25.0, 123.0] {
                    let b = (v * mult).to_bits();
                    for d in 0..3 {
                        judge::<f64>(&mut cx, b + d);
                    }
                }
                let v32: f32 = format!("1e{e}").parse().unwrap();
                for d in -3i64..=3 {
                    let b = v32.to_bits() as i64 + d;
                    if b >= 0 {
                        judge::<f32>(&mut cx, b as u64);
                    }
                }
            }
        }
        // endpoint-prone region: large integers 2^53..2^64 and beyond with few significant bits + random
        for _ in 0..nrand / nshards as u64 {
            let r = rng.next_u64();
            match r & 7 {
                0 => {
                    // integer-valued doubles in [2^53, 2^77) -- trailing zero removal / divisibility tests
                    let e = 1075 + rng.below(25);
                    judge::<f64>(&mut cx, (e << 52) | (rng.next_u64() & ((1u64 << 52) - 1)));
                },
                1 => {
                    // few mantissa bits set
                    let e = rng.below(2047);
                    let mut mm = 0u64;
                    for _ in 0..1 + rng.below(4) {
                        mm |= 1u64 << rng.below(52);
                    }
                    judge::<f64>(&mut cx, (e << 52) | mm);
                },
                2 => {
                    // short decimals d * 10^q rounded to f64 and neighbours
                    let d = rng.below(100_000) as f64;
                    let q = rng.range(-300, 300) as i32;
                    let v = d * 10f64.powi(q);
                    let b = v.to_bits();
                    if v.is_finite() && b > 2 {
                        judge::<f64>(&mut cx, b);
                        judge::<f64>(&mut cx, b + 1);
                        judge::<f64>(&mut cx, b - 1);
                    }
                },
                _ => judge::<f64>(&mut cx, r),
            }
        }
        rep.merge_counts(&cx.counts);
    });
    // distinct non-trivial: every judged float is a distinct bit pattern per stream except overlaps, count conservatively:
    // evaluations that went through an exact-arithmetic check or disagreed with core
    let g = rep.inner.lock().unwrap();
    let d = g.counters.get("roundtrip-exact-checks").copied().unwrap_or(0);
    drop(g);
    rep.count("distinct_nontrivial", d);
    args.finish(&rep);
}
