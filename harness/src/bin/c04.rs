//! C04: string -> integer is exact with exact overflow detection (complete + partial, both
//! no_multi_digit settings, every radix of the configuration).
use std::collections::{BTreeMap, HashSet};
use vharness::big::Big;
use vharness::exec::*;
use vharness::fgen::digit_char;
use vharness::guard::{self, Arena};
use vharness::oracle::digit_value;
use vharness::report::{self, obj, show, Args, Report};
use vharness::rng::Rng;
use vharness::{fmts, for_int_types, radix_dispatch};

#[derive(Debug, Clone, PartialEq)]
enum Ref {
    Ok { neg: bool, mag: u128, n: usize, digits: usize },
    Err { kind: &'static str, idx: usize },
}

/// Left-to-right reference scanner written from the property statement.
fn ref_scan<T: LInt>(b: &[u8], radix: u32, partial: bool) -> Ref {
    let mut i = 0;
    let mut neg = false;
    if !b.is_empty() {
        if b[0] == b'+' {
            i = 1;
        } else if b[0] == b'-' && T::SIGNED {
            neg = true;
            i = 1;
        }
    }
    if i == b.len() {
        return Ref::Err { kind: "Empty", idx: i };
    }
    let start = i;
    let limit = T::max_mag(neg);
    let mut acc: u128 = 0;
    while i < b.len() {
        let d = digit_value(b[i]);
        if d >= radix {
            if partial {
                return Ref::Ok { neg, mag: acc, n: i, digits: i - start };
            }
            return Ref::Err { kind: "InvalidDigit", idx: i };
        }
        let next = acc.checked_mul(radix as u128).and_then(|x| x.checked_add(d as u128));
        match next {
            Some(v) if v <= limit => acc = v,
            _ => return Ref::Err { kind: if neg { "Underflow" } else { "Overflow" }, idx: i },
        }
        i += 1;
    }
    Ref::Ok { neg, mag: acc, n: b.len(), digits: b.len() - start }
}

struct Cx<'a> {
    rep: &'a Report,
    cfg: String,
    counts: BTreeMap<String, u64>,
    distinct: HashSet<u64>,
    arena: Arena,
    n: u64,
    opt_multi: lexical_core::ParseIntegerOptions,
    opt_nomulti: lexical_core::ParseIntegerOptions,
}

fn hash(t: &str, radix: u32, b: &[u8]) -> u64 {
    let mut h = 0xcbf29ce484222325u64 ^ radix as u64;
    for &c in t.as_bytes().iter().chain(b) {
        h = (h ^ c as u64).wrapping_mul(0x100000001b3);
    }
    h
}

fn judge_one<T: LInt>(cx: &mut Cx, entry: &str, partial: bool, radix: u32, input: &[u8], got: R<T>) {
    let want = ref_scan::<T>(input, radix, partial);
    let ok = match (&want, &got) {
        (Ref::Ok { neg, mag, n, digits }, R::Ok(v, gn)) => {
            if partial && *digits == 0 {
                // zero digits before a non-digit: the statement leaves the partial result open (judged by C11)
                let (_, gm) = v.split();
                gm == 0 && *gn <= *n
            } else {
                T::join(*neg, *mag) == Some(*v) && gn == n
            }
        },
        (Ref::Ok { digits, .. }, R::Err(e)) if partial && *digits == 0 => err_kind(e) == "Empty" || err_kind(e) == "InvalidDigit",
        (Ref::Err { kind, idx }, R::Err(e)) => err_kind(e) == *kind && err_index(e) == *idx as i64,
        _ => false,
    };
    // index discipline regardless of verdict
    let idx_ok = match &got {
        R::Ok(_, n) => *n <= input.len(),
        R::Err(e) => err_index(e) <= input.len() as i64,
        R::Panic(_) => false,
    };
    if !ok || !idx_ok {
        let kind = match (&want, &got) {
            (_, R::Panic(_)) => "panic",
            (Ref::Ok { .. }, R::Ok(..)) => "wrong-value",
            (Ref::Ok { .. }, R::Err(_)) => "rejected-valid",
            (Ref::Err { .. }, R::Ok(..)) => "accepted-invalid",
            (Ref::Err { .. }, R::Err(_)) => "wrong-error",
        };
        let want_kind = match &want {
            Ref::Ok { .. } => "Ok",
            Ref::Err { kind, .. } => kind,
        };
        let width = if T::BITS <= 16 { "narrow" } else if T::BITS <= 64 { "word" } else { "wide" };
        let sig = format!("C04|{}|{}|{}|expected-{}", if partial { "partial" } else { "complete" }, width, kind, want_kind);
        let gs = match &got {
            R::Ok(v, n) => format!("Ok({v}, n={n})"),
            R::Err(e) => format!("Err({e:?})"),
            R::Panic(p) => format!("Panic({p})"),
        };
        cx.rep.violation(
            &sig,
            obj(&[
                ("property", "C04".into()),
                ("config", cx.cfg.clone()),
                ("profile", vharness::profile_name().into()),
                ("type", T::NAME.into()),
                ("radix", radix.to_string()),
                ("entry", entry.into()),
                ("input", show(input)),
                ("expected", format!("{want:?}")),
                ("observed", gs),
            ]),
        );
    }
}

fn judge_fmt<T: LInt, const FMT: u128>(cx: &mut Cx, radix: u32, input: &[u8]) {
    cx.n += 1;
    let place = place_for(cx.n);
    guard::set_crumb(input);
    let r = parse_complete_opt::<T, FMT>(&mut cx.arena, input, place, &cx.opt_multi);
    judge_one::<T>(cx, "parse_with_options(multi)", false, radix, input, r);
    let r = parse_complete_opt::<T, FMT>(&mut cx.arena, input, place, &cx.opt_nomulti);
    judge_one::<T>(cx, "parse_with_options(no_multi)", false, radix, input, r);
    let r = parse_partial_opt::<T, FMT>(&mut cx.arena, input, place, &cx.opt_multi);
    judge_one::<T>(cx, "parse_partial_with_options(multi)", true, radix, input, r);
    let r = parse_partial_opt::<T, FMT>(&mut cx.arena, input, place, &cx.opt_nomulti);
    judge_one::<T>(cx, "parse_partial_with_options(no_multi)", true, radix, input, r);
    if radix == 10 {
        let r = parse_complete::<T>(&mut cx.arena, input, place);
        judge_one::<T>(cx, "parse", false, radix, input, r);
        let r = parse_partial::<T>(&mut cx.arena, input, place);
        judge_one::<T>(cx, "parse_partial", true, radix, input, r);
    }
    // non-trivial: anything but a short in-range numeral
    let w = ref_scan::<T>(input, radix, false);
    let nontrivial = match w {
        Ref::Err { .. } => true,
        Ref::Ok { mag, .. } => mag > T::max_mag(false) / (radix as u128 * radix as u128),
    };
    if nontrivial {
        cx.distinct.insert(hash(T::NAME, radix, input));
    }
}

fn judge<T: LInt>(cx: &mut Cx, radix: u32, input: &[u8]) {
    radix_dispatch!(radix, FMT, { judge_fmt::<T, FMT>(cx, radix, input) });
}

fn numeral(mag: &Big, radix: u32, lower: bool) -> Vec<u8> {
    mag.to_digits(radix).iter().map(|&d| if lower { digit_char(d).to_ascii_lowercase() } else { digit_char(d) }).collect()
}

/// value-directed inputs for one (type, radix)
fn gen_inputs<T: LInt>(radix: u32, rng: &mut Rng, thorough: bool) -> Vec<Vec<u8>> {
    let mut out: Vec<Vec<u8>> = Vec::new();
    let junk: &[u8] = &[b' ', b'_', b'.', b'+', b'-', 0x00, 0x2f, 0x3a, 0x40, 0x5b, 0x60, 0x7b, 0x7f, 0x80, 0xb0, 0xb5, 0xb9, 0xff, b'g', b'G', b'z', b'Z'];
    let signs: &[&[u8]] = if T::SIGNED { &[b"", b"+", b"-"] } else { &[b"", b"+", b"-"] };
    // boundary magnitudes: limits +-{0,1,2}, powers of radix +-1
    let mut mags: Vec<Big> = Vec::new();
    for neg in [false, true] {
        let m = T::max_mag(neg);
        for d in 0..3u32 {
            let mut b = Big::from_u128(m);
            b.add_small(d);
            mags.push(b);
            if m >= d as u128 {
                mags.push(Big::from_u128(m - d as u128));
            }
        }
        // limit * radix, limit * radix + (radix-1): one digit too long
        let mut b = Big::from_u128(m);
        b.mul_small(radix);
        mags.push(b.clone());
        b.add_small(radix - 1);
        mags.push(b);
    }
    let maxlen = Big::from_u128(T::max_mag(false)).to_digits(radix).len();
    for l in 1..=maxlen + 2 {
        // all-max digits, 1 followed by zeros, random
        mags.push(Big::from_digits(radix, &vec![(radix - 1) as u8; l]));
        let mut one = vec![0u8; l];
        one[0] = 1;
        mags.push(Big::from_digits(radix, &one));
        for _ in 0..if thorough { 12 } else { 3 } {
            let d: Vec<u8> = (0..l).map(|i| if i == 0 { 1 + rng.below(radix as u64 - 1) as u8 } else { rng.below(radix as u64) as u8 }).collect();
            mags.push(Big::from_digits(radix, &d));
        }
    }
    for m in &mags {
        let lower = rng.chance(1, 2);
        let num = numeral(m, radix, lower);
        for s in signs {
            for z in [0usize, 1, 3, 40] {
                let mut t = s.to_vec();
                t.extend(std::iter::repeat(b'0').take(z));
                t.extend_from_slice(&num);
                out.push(t.clone());
                if z <= 1 {
                    // junk suffix, truncation, one-byte substitution
                    let j = *rng.pick(junk);
                    let mut u = t.clone();
                    u.push(j);
                    out.push(u);
                    let cut = rng.below(t.len() as u64 + 1) as usize;
                    out.push(t[..cut].to_vec());
                    let pos = rng.below(t.len() as u64) as usize;
                    let mut u = t.clone();
                    u[pos] = *rng.pick(junk);
                    out.push(u);
                }
            }
        }
    }
    // mixed case numeral of MAX
    let num = numeral(&Big::from_u128(T::max_mag(false)), radix, false);
    let mixed: Vec<u8> = num.iter().enumerate().map(|(i, &c)| if i % 2 == 0 { c.to_ascii_lowercase() } else { c }).collect();
    out.push(mixed);
    // SWAR windows: valid digit strings of 4..24 bytes with EVERY non-digit byte value at every position (radix <= 10 paths,
    // and the scalar path for the others)
    let lens: &[usize] = if thorough { &[4, 5, 7, 8, 9, 12, 15, 16, 17, 24, 25] } else { &[4, 8, 9, 16, 17] };
    for &l in lens {
        if l > maxlen + 1 {
            continue;
        }
        let base: Vec<u8> = (0..l).map(|i| if i == 0 { digit_char(1) } else { digit_char(rng.below(radix.min(10) as u64) as u8) }).collect();
        for pos in 0..l {
            for byte in 0..=255u8 {
                if digit_value(byte) < radix {
                    continue;
                }
                if !thorough && !(byte < 0x30 || byte >= 0x3a) {
                    continue;
                }
                let mut t = base.clone();
                t[pos] = byte;
                out.push(t);
            }
        }
    }
    // long inputs: zeros then digits
    for z in [100usize, 1000, 4096] {
        let mut t = vec![b'0'; z];
        t.extend_from_slice(&numeral(&Big::from_u128(T::max_mag(false)), radix, false));
        out.push(t.clone());
        t.push(b'0');
        out.push(t);
    }
    out
}

/// all strings of length <= maxlen over a small hostile alphabet
fn short_strings(radix: u32, maxlen: usize) -> Vec<Vec<u8>> {
    let hi = digit_char((radix - 1) as u8);
    let inval = if radix < 36 { digit_char(radix as u8) } else { b'[' };
    let mut alpha: Vec<u8> = vec![b'+', b'-', b'0', b'1', hi, hi.to_ascii_lowercase(), inval, b'_', 0x00, 0x2f, 0x3a, 0x80, 0xff];
    alpha.sort();
    alpha.dedup();
    let mut out = vec![vec![]];
    let mut frontier: Vec<Vec<u8>> = vec![vec![]];
    for _ in 0..maxlen {
        let mut next = Vec::new();
        for s in &frontier {
            for &a in &alpha {
                let mut t = s.clone();
                t.push(a);
                next.push(t);
            }
        }
        out.extend(next.iter().cloned());
        frontier = next;
    }
    out
}

fn main() {
    let args = Args::parse();
    report::quiet_panics();
    guard::install();
    let rep = Report::new();
    let cfg = vharness::config_name();
    rep.note("config", cfg.clone());
    rep.note("profile", vharness::profile_name().to_string());
    let thorough = args.thorough();
    let radices = fmts::radices();
    let small = args.get("small").is_some();
    let total_distinct = std::sync::Mutex::new(0u64);
    let new_cx = |rep| Cx {
        rep,
        cfg: cfg.clone(),
        counts: BTreeMap::new(),
        distinct: HashSet::new(),
        arena: Arena::new(8192),
        n: 0,
        opt_multi: lexical_core::ParseIntegerOptions::builder().no_multi_digit(false).build().unwrap(),
        opt_nomulti: lexical_core::ParseIntegerOptions::builder().no_multi_digit(true).build().unwrap(),
    };

    if let Some(r) = args.get("replay") {
        // replay=<type>:<radix>:<shown input>
        let mut it = r.splitn(3, ':');
        let (t, radix, inp) = (it.next().unwrap(), it.next().unwrap().parse::<u32>().unwrap(), report::unshow(it.next().unwrap_or("")));
        let mut cx = new_cx(&rep);
        macro_rules! rp {
            ($t:ty) => {
                if t == stringify!($t) {
                    judge::<$t>(&mut cx, radix, &inp);
                }
            };
        }
        for_int_types!(rp);
        args.finish(&rep);
    }

    let items: Vec<(usize, u32)> = (0..12).flat_map(|t| radices.iter().map(move |&r| (t, r))).collect();
    report::parallel(args.threads, |shard, nshards| {
        let mut cx = new_cx(&rep);
        cx.n = shard as u64;
        for (i, &(t, radix)) in items.iter().enumerate() {
            if i % nshards != shard {
                continue;
            }
            let mut rng = Rng::stream(args.seed, 4000 + i as u64);
            let shorts = short_strings(radix, if small { 2 } else if thorough { 5 } else { 4 });
            let mut ti = 0;
            macro_rules! go {
                ($t:ty) => {
                    if ti == t {
                        let before = cx.n;
                        let inputs = gen_inputs::<$t>(radix, &mut rng, thorough);
                        for (j, inp) in inputs.iter().enumerate() {
                            if small && j % 29 != 0 {
                                continue;
                            }
                            judge::<$t>(&mut cx, radix, inp);
                        }
                        for s in &shorts {
                            judge::<$t>(&mut cx, radix, s);
                        }
                        if cx.n % 7 == 0 && !inputs.is_empty() {
                            cx.rep.sample(format!("{} radix {} {}", stringify!($t), radix, show(&inputs[rng.below(inputs.len() as u64) as usize])));
                        }
                        *cx.counts.entry(format!("evals.{}", stringify!($t))).or_insert(0) += cx.n - before;
                        *cx.counts.entry(format!("radix.{radix}")).or_insert(0) += cx.n - before;
                    }
                    ti += 1;
                };
            }
            for_int_types!(go);
            let _ = ti;
        }
        rep.merge_counts_s(&cx.counts);
        *total_distinct.lock().unwrap() += cx.distinct.len() as u64;
    });
    rep.count("distinct_nontrivial", *total_distinct.lock().unwrap());
    args.finish(&rep);
}
