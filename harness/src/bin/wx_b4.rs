//! format-table write executor: prebuilt formats of lexical, part 4 (needs features format + power-of-two)
const SET: u32 = vharness::fmttab::SET_PREBUILT;
const PART: usize = 4;
const fn fmt_of(i: usize) -> u128 {
    vharness::fmttab::prebuilt::pick(i)
}
fn desc_of<const FMT: u128>(_i: usize) -> vharness::fmttab::Desc {
    vharness::fmttab::decode::<FMT>()
}
include!("../wexec_main.rs");
