//! Oracle / instrumentation self-tests.  Failure => the checks are inconclusive, never a violation.
use vharness::*;
fn main() {
    let args = report::Args::parse();
    if args.get("guard-live").is_some() {
        guard::install();
        let b = guard::deliberate_overread();
        println!("NOT-CAUGHT {b}");
        std::process::exit(0);
    }
    let mut ok = true;
    match big::selftest(args.seed) {
        Ok(n) => println!("big: {n} checks ok"),
        Err(e) => {
            println!("SELFTEST-FAIL big: {e}");
            ok = false;
        },
    }
    match oracle::selftest(args.seed) {
        Ok(n) => println!("oracle: {n} checks ok"),
        Err(e) => {
            println!("SELFTEST-FAIL oracle: {e}");
            ok = false;
        },
    }
    std::process::exit(if ok { 0 } else { 3 });
}
