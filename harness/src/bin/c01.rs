//! C01: decimal string -> float is correctly rounded (complete, partial, with_options<STANDARD>).
//! Also serves C19 (`lossy=1`): lossy results must be the correctly rounded float or a neighbour,
//! with identical accept/reject/count.
use std::collections::{BTreeMap, HashSet};
use vharness::exec::*;
use vharness::fgen::{self, Case, Spec};
use vharness::guard::{self, Arena};
use vharness::oracle::{self, Exact};
use vharness::report::{self, obj, show, Args, Report};
use vharness::rng::Rng;

const STANDARD: u128 = lexical_core::format::STANDARD;

fn hash(b: &[u8]) -> u64 {
    let mut h = 0xcbf29ce484222325u64;
    for &c in b {
        h = (h ^ c as u64).wrapping_mul(0x100000001b3);
    }
    h
}

struct Ctx<'a> {
    rep: &'a Report,
    cfg: String,
    lossy: bool,
    counts: BTreeMap<String, u64>,
    distinct: HashSet<u64>,
    arena: Arena,
    idx: u64,
    opts: lexical_core::ParseFloatOptions,
    opts_lossy: lexical_core::ParseFloatOptions,
}

fn bump(c: &mut BTreeMap<String, u64>, k: &str) {
    *c.entry(k.to_string()).or_insert(0) += 1;
}

fn judge<T: LFloat>(cx: &mut Ctx, case: &Case) {
    let k = T::KIND;
    let text = &case.text;
    cx.idx += 1;
    let place = place_for(cx.idx);
    guard::set_crumb(text);
    let parts = match oracle::split_simple(text, 10, 10, b'.', b'e') {
        Some(p) => p,
        None => {
            bump(&mut cx.counts, "oracle-skip");
            return;
        },
    };
    let x = parts.exact(10, 10, 10);
    let sign = if parts.neg { k.sign_bit() } else { 0 };
    let results: Vec<(&'static str, R<T>)> = if cx.lossy {
        vec![
            ("lossy_complete", parse_complete_opt::<T, STANDARD>(&mut cx.arena, text, place, &cx.opts_lossy)),
            ("lossy_partial", parse_partial_opt::<T, STANDARD>(&mut cx.arena, text, place, &cx.opts_lossy)),
        ]
    } else {
        vec![
            ("parse", parse_complete::<T>(&mut cx.arena, text, place)),
            ("parse_partial", parse_partial::<T>(&mut cx.arena, text, place)),
            ("parse_with_options", parse_complete_opt::<T, STANDARD>(&mut cx.arena, text, place, &cx.opts)),
            ("parse_partial_with_options", parse_partial_opt::<T, STANDARD>(&mut cx.arena, text, place, &cx.opts)),
        ]
    };
    bump(&mut cx.counts, &format!("evals.{}", k.name()));
    bump(&mut cx.counts, &format!("tag.{}", case.tag));
    let mut expected: Option<u64> = None;
    let ndig = parts.int_digits.len() + parts.frac_digits.len();
    for (entry, r) in &results {
        let bad: Option<&str> = match r {
            R::Ok(v, n) => {
                let b = v.bits64();
                let abs = b & k.abs_mask();
                if *n != text.len() {
                    Some("count")
                } else if k.is_nan(b) {
                    Some("nan")
                } else if (b & k.sign_bit()) != sign {
                    Some("sign")
                } else if cx.lossy {
                    // correctly rounded or adjacent
                    let ok = oracle::is_correctly_rounded(k, &x, abs)
                        || (abs > 0 && oracle::is_correctly_rounded(k, &x, abs - 1))
                        || (abs < k.inf_bits() && oracle::is_correctly_rounded(k, &x, abs + 1));
                    if ok {
                        if !oracle::is_correctly_rounded(k, &x, abs) {
                            bump(&mut cx.counts, "lossy-off-by-one");
                            if oracle::is_correctly_rounded(k, &x, 0) || oracle::is_correctly_rounded(k, &x, k.inf_bits()) {
                                // allowed by the one-step clause; counted so that a drift is visible in the evidence
                                bump(&mut cx.counts, "lossy-neighbour-of-a-zero-or-infinite-result");
                            }
                            // results that are zero / infinity when correctly rounded must be unchanged
                            let exact_class = oracle::clearly_zero(k, &x) || oracle::clearly_inf(k, &x);
                            if exact_class {
                                // zero / infinity must be unchanged
                                Some("lossy-zero-inf")
                            } else {
                                None
                            }
                        } else {
                            None
                        }
                    } else {
                        Some("lossy-beyond-1ulp")
                    }
                } else if !oracle::is_correctly_rounded(k, &x, abs) {
                    Some("rounding")
                } else {
                    None
                }
            },
            R::Err(_) => Some("rejected"),
            R::Panic(_) => Some("panic"),
        };
        if let Some(kind) = bad {
            let exp = *expected.get_or_insert_with(|| oracle::round_nearest_even(k, &x) | sign);
            let many = if ndig > 19 { "many-digits" } else { "few-digits" };
            let prop = if cx.lossy { "C19" } else { "C01" };
            let sig = format!("{prop}|{}|{}|{}|{}", if cx.cfg.contains('c') { "compact" } else { "noncompact" }, k.name(), kind, many);
            cx.rep.violation(
                &sig,
                obj(&[
                    ("property", prop.to_string()),
                    ("config", cx.cfg.clone()),
                    ("profile", vharness::profile_name().to_string()),
                    ("type", k.name().to_string()),
                    ("entry", entry.to_string()),
                    ("input", show(text)),
                    ("expected_bits", format!("{exp:#x}")),
                    ("observed", show_r_float(r)),
                    ("tag", case.tag.to_string()),
                ]),
            );
        }
    }
    // oracle cross-check against core's parser (a disagreement makes the run inconclusive, not violated)
    if !cx.lossy {
        if let Ok(s) = std::str::from_utf8(text) {
            if let Some(c) = T::std_parse(s) {
                let cb = c.bits64();
                if !oracle::is_correctly_rounded(k, &x, cb & k.abs_mask()) {
                    cx.rep.inconclusive(format!("oracle and core::str::parse disagree on {}", show(text)));
                }
                bump(&mut cx.counts, "core-crosschecks");
            }
        }
    }
    // non-trivial: boundary families, long inputs, or results at the edges of the range
    let edge = match &results[0].1 {
        R::Ok(v, _) => {
            let abs = v.bits64() & k.abs_mask();
            abs == k.inf_bits() || abs < (2u64 << k.mant_bits)
        },
        _ => true,
    };
    let boundary = case.tag.contains("halfway") || case.tag.contains("tie") || case.tag.starts_with("tie") || case.tag == "fastpath-limit" || case.tag == "extreme-exp";
    if boundary || ndig > 19 || edge {
        cx.distinct.insert(hash(text) ^ (k.mant_bits as u64));
    }
    if cx.idx % 50021 == 1 {
        cx.rep.sample(format!("{} {} [{}] -> {}", k.name(), show(&text[..text.len().min(120)]), case.tag, show_r_float(&results[0].1)));
    }
}

fn main() {
    let args = Args::parse();
    report::quiet_panics();
    guard::install();
    let rep = Report::new();
    let cfg = vharness::config_name();
    let lossy = args.get("lossy").is_some();
    rep.note("config", cfg.clone());
    rep.note("profile", vharness::profile_name().to_string());
    let thorough = args.thorough();
    // miri / small runs: cases=N limits the per-type number of halfway floats
    let small = args.get_u64("small", 0);
    let per_binade = if thorough { 24 } else { 2 };
    let total_distinct = std::sync::Mutex::new(HashSet::<u64>::new());

    if let Some(r) = args.get("replay") {
        let text = report::unshow(r);
        let mut cx = Ctx {
            rep: &rep,
            cfg: cfg.clone(),
            lossy,
            counts: BTreeMap::new(),
            distinct: HashSet::new(),
            arena: Arena::new(1 << 16),
            idx: 0,
            opts: lexical_core::ParseFloatOptions::new(),
            opts_lossy: lexical_core::ParseFloatOptions::builder().lossy(true).build().unwrap(),
        };
        let c = Case { text, tag: "replay" };
        judge::<f64>(&mut cx, &c);
        judge::<f32>(&mut cx, &c);
        rep.merge_counts_s(&cx.counts);
        args.finish(&rep);
    }

    report::parallel(args.threads, |shard, nshards| {
        let mut cx = Ctx {
            rep: &rep,
            cfg: cfg.clone(),
            lossy,
            counts: BTreeMap::new(),
            distinct: HashSet::new(),
            arena: Arena::new(1 << 16),
            idx: shard as u64,
            opts: lexical_core::ParseFloatOptions::new(),
            opts_lossy: lexical_core::ParseFloatOptions::builder().lossy(true).build().unwrap(),
        };
        let spec = Spec::DECIMAL;
        let mut rng = Rng::stream(args.seed, 1000 + shard as u64);
        // halfway families: binades are dealt round-robin to the shards
        let mut brng = Rng::stream(args.seed, 1);
        let b64 = fgen::binade_bits(oracle::F64, &mut brng, per_binade);
        let b32 = fgen::binade_bits(oracle::F32, &mut brng, per_binade * 4);
        let lim = if small > 0 { small as usize } else { usize::MAX };
        for (i, &b) in b64.iter().enumerate() {
            if i % nshards != shard || i / nshards >= lim {
                continue;
            }
            let mut cases = Vec::new();
            fgen::halfway_family(&spec, oracle::F64, b, &mut rng, thorough, &mut |c| cases.push(c));
            for c in &cases {
                judge::<f64>(&mut cx, c);
                if cx.idx % 4 == 0 {
                    judge::<f32>(&mut cx, c);
                }
            }
        }
        for (i, &b) in b32.iter().enumerate() {
            if i % nshards != shard || i / nshards >= lim {
                continue;
            }
            let mut cases = Vec::new();
            fgen::halfway_family(&spec, oracle::F32, b, &mut rng, thorough, &mut |c| cases.push(c));
            for c in &cases {
                judge::<f32>(&mut cx, c);
                if cx.idx % 4 == 0 {
                    judge::<f64>(&mut cx, c);
                }
            }
        }
        if shard == 0 {
            for kind in [oracle::F64, oracle::F32] {
                let mut cases = Vec::new();
                fgen::short_ties(kind, &mut rng, &mut |c| cases.push(c));
                for c in &cases {
                    judge::<f64>(&mut cx, c);
                    judge::<f32>(&mut cx, c);
                }
            }
        }
        if small == 0 || shard == 0 {
            for kind in [oracle::F64, oracle::F32] {
                let mut cases = Vec::new();
                fgen::structure_family(&spec, kind, &mut rng, thorough, &mut |c| cases.push(c));
                for (i, c) in cases.iter().enumerate() {
                    if small > 0 && i as u64 % 97 != 0 {
                        continue;
                    }
                    if c.text.len() > 60000 {
                        continue;
                    }
                    if kind == oracle::F64 {
                        judge::<f64>(&mut cx, c);
                    } else {
                        judge::<f32>(&mut cx, c);
                    }
                }
            }
        }
        rep.merge_counts_s(&cx.counts);
        total_distinct.lock().unwrap().extend(cx.distinct.iter());
    });
    rep.count("distinct_nontrivial", total_distinct.lock().unwrap().len() as u64);
    args.finish(&rep);
}
