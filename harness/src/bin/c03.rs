//! C03: integer -> string is the exact canonical numeral in every radix; decimal equals Display;
//! the returned slice is a prefix of the caller's buffer of the numeral's length.
use std::collections::BTreeMap;
use vharness::exec::*;
use vharness::guard::{self, Arena};
use vharness::report::{self, obj, show, Args, Report};
use vharness::rng::Rng;
use vharness::{fmts, for_int_types, radix_dispatch};

const STANDARD: u128 = lexical_core::format::STANDARD;
#[cfg(feature = "format")]
const PLUS10: u128 = lexical_core::NumberFormatBuilder::new().required_mantissa_sign(true).build_strict();
#[cfg(all(feature = "format", feature = "power-of-two"))]
const PLUS16: u128 = lexical_core::NumberFormatBuilder::new().radix(16).required_mantissa_sign(true).build_strict();

struct Cx<'a> {
    rep: &'a Report,
    cfg: String,
    counts: BTreeMap<String, u64>,
    arena: Arena,
    n: u64,
    opts: lexical_core::WriteIntegerOptions,
}

fn viol<T: LInt>(cx: &Cx, kind: &str, v: T, radix: u32, out: &[u8], want: &[u8], api: &str) {
    let width = if T::BITS <= 16 { "narrow" } else if T::BITS <= 64 { "word" } else { "wide" };
    let rclass = if radix == 10 { "decimal" } else if radix.is_power_of_two() { "pow2" } else { "generic" };
    let sig = format!("C03|{}|{}|{}|{}", if cx.cfg.contains('c') { "compact" } else { "noncompact" }, width, rclass, kind);
    cx.rep.violation(
        &sig,
        obj(&[
            ("property", "C03".into()),
            ("config", cx.cfg.clone()),
            ("type", T::NAME.into()),
            ("value", format!("{v}")),
            ("radix", radix.to_string()),
            ("api", api.into()),
            ("output", show(out)),
            ("expected", show(want)),
        ]),
    );
}

/// one write through write_with_options<FMT>; checks numeral, pointer identity, length
fn check_fmt<T: LInt, const FMT: u128>(cx: &mut Cx, v: T, radix: u32, plus: bool) {
    cx.n += 1;
    let (neg, mag) = v.split();
    let want = ref_numeral(neg, mag, radix, plus);
    let bound = if radix == 10 { T::FORMATTED_SIZE_DECIMAL } else { T::FORMATTED_SIZE } + if plus { 1 } else { 0 };
    let place = place_for(cx.n);
    let opts = &cx.opts;
    vharness::guard::set_crumb_bits(T::NAME, mag as u64 ^ ((radix as u64) << 56));
    let buf = cx.arena.output(bound, place, cx.n as u8);
    let base = buf.as_ptr() as usize;
    let r = report::catch(|| {
        let s = lexical_core::write_with_options::<T, FMT>(v, buf, opts);
        (s.as_ptr() as usize, s.to_vec())
    });
    match r {
        Ok((ptr, out)) => {
            if out != want {
                viol(cx, "numeral", v, radix, &out, &want, "write_with_options");
            } else if ptr != base {
                viol(cx, "slice-not-at-buffer-start", v, radix, &out, &want, "write_with_options");
            }
        },
        Err(p) => viol(cx, "panic", v, radix, p.as_bytes(), &want, "write_with_options"),
    }
}

fn check_default<T: LInt>(cx: &mut Cx, v: T) {
    cx.n += 1;
    let want = format!("{v}").into_bytes();
    let place = place_for(cx.n);
    vharness::guard::set_crumb_bits(T::NAME, v.split().1 as u64);
    let buf = cx.arena.output(T::FORMATTED_SIZE_DECIMAL, place, cx.n as u8);
    let base = buf.as_ptr() as usize;
    let r = report::catch(|| {
        let s = lexical_core::write(v, buf);
        (s.as_ptr() as usize, s.to_vec())
    });
    match r {
        Ok((ptr, out)) => {
            if out != want {
                viol(cx, "display-mismatch", v, 10, &out, &want, "write");
            } else if ptr != base {
                viol(cx, "slice-not-at-buffer-start", v, 10, &out, &want, "write");
            }
        },
        Err(p) => viol(cx, "panic", v, 10, p.as_bytes(), &want, "write"),
    }
}

fn check_all<T: LInt>(cx: &mut Cx, v: T, radix: u32) {
    radix_dispatch!(radix, FMT, { check_fmt::<T, FMT>(cx, v, radix, false) });
    if radix == 10 {
        check_default::<T>(cx, v);
        check_fmt::<T, STANDARD>(cx, v, 10, false);
        #[cfg(feature = "format")]
        check_fmt::<T, PLUS10>(cx, v, 10, true);
    }
    #[cfg(all(feature = "format", feature = "power-of-two"))]
    if radix == 16 {
        check_fmt::<T, PLUS16>(cx, v, 16, true);
    }
}

/// value workload for one (type, radix): returns (neg, mag) pairs
fn gen_values<T: LInt>(radix: u32, rng: &mut Rng, per_count: usize) -> Vec<T> {
    let mut mags: Vec<u128> = vec![0, 1, 2, T::max_mag(false), T::max_mag(false) - 1, T::max_mag(true), T::max_mag(true).wrapping_sub(1)];
    let maxm = T::max_mag(false).max(T::max_mag(true));
    // powers of the radix and of two
    let mut p: u128 = 1;
    let mut pows = vec![];
    loop {
        pows.push(p);
        for d in [0i128, 1, 2, -1, -2] {
            mags.push((p as i128).wrapping_add(d) as u128);
        }
        match p.checked_mul(radix as u128) {
            Some(q) if q <= maxm => p = q,
            _ => break,
        }
    }
    for k in 0..T::BITS {
        let b = 1u128 << k;
        mags.push(b);
        mags.push(b - 1);
        mags.push(b + 1);
    }
    // per digit count: uniform values with exactly k digits
    for (k, &lo) in pows.iter().enumerate() {
        let hi = pows.get(k + 1).map(|&x| x - 1).unwrap_or(maxm).min(maxm);
        if hi < lo {
            continue;
        }
        let span = hi - lo;
        for _ in 0..per_count {
            let r = if span == u128::MAX { rng.next_u128() } else { rng.next_u128() % (span + 1) };
            mags.push(lo + r);
        }
        // digit patterns with zero runs / all max digits
        let nd = k + 1;
        for variant in 0..per_count.min(24) {
            let mut m: u128 = 0;
            let zero_from = rng.below(nd as u64) as usize;
            let zero_len = 1 + rng.below(nd as u64) as usize;
            let mut ok = true;
            for i in 0..nd {
                let d = if i == 0 {
                    1 + rng.below(radix as u64 - 1) as u128
                } else if variant % 3 == 0 && i >= zero_from && i < zero_from + zero_len {
                    0
                } else if variant % 3 == 1 {
                    if rng.chance(1, 2) {
                        0
                    } else {
                        rng.below(radix as u64) as u128
                    }
                } else if variant % 3 == 2 && rng.chance(3, 4) {
                    radix as u128 - 1
                } else {
                    rng.below(radix as u64) as u128
                };
                match m.checked_mul(radix as u128).and_then(|x| x.checked_add(d)) {
                    Some(x) => m = x,
                    None => {
                        ok = false;
                        break;
                    },
                }
            }
            if ok {
                mags.push(m);
            }
        }
    }
    let mut out = Vec::with_capacity(mags.len() * 2);
    for m in mags {
        if let Some(v) = T::join(false, m) {
            out.push(v);
        }
        if T::SIGNED {
            if let Some(v) = T::join(true, m) {
                out.push(v);
            }
        }
    }
    out
}

fn main() {
    let args = Args::parse();
    report::quiet_panics();
    guard::install();
    let rep = Report::new();
    let cfg = vharness::config_name();
    rep.note("config", cfg.clone());
    rep.note("profile", vharness::profile_name().to_string());
    let thorough = args.thorough();
    let radices = fmts::radices();
    let per_count = args.get_u64("percount", if thorough { 40000 } else { 1500 }) as usize;
    let u32_stride = args.get_u64("u32stride", if thorough { 1 } else { 31 });
    let small = args.get("small").is_some();

    if let Some(r) = args.get("replay") {
        // replay=<type>:<radix>:<value>
        let parts: Vec<&str> = r.split(':').collect();
        let radix: u32 = parts[1].parse().unwrap();
        let mut cx = Cx { rep: &rep, cfg: cfg.clone(), counts: BTreeMap::new(), arena: Arena::new(4096), n: 0, opts: lexical_core::WriteIntegerOptions::new() };
        macro_rules! rp {
            ($t:ty) => {
                if parts[0] == stringify!($t) {
                    let v: $t = parts[2].parse().unwrap();
                    check_all::<$t>(&mut cx, v, radix);
                }
            };
        }
        for_int_types!(rp);
        args.finish(&rep);
    }

    // work items: (type index, radix); dealt round-robin
    let items: Vec<(usize, u32)> = (0..12).flat_map(|t| radices.iter().map(move |&r| (t, r))).collect();
    report::parallel(args.threads, |shard, nshards| {
        let mut cx = Cx { rep: &rep, cfg: cfg.clone(), counts: BTreeMap::new(), arena: Arena::new(4096), n: shard as u64, opts: lexical_core::WriteIntegerOptions::new() };
        for (i, &(t, radix)) in items.iter().enumerate() {
            if i % nshards != shard {
                continue;
            }
            let mut rng = Rng::stream(args.seed, 3000 + i as u64);
            let mut ti = 0;
            macro_rules! go {
                ($t:ty) => {
                    if ti == t {
                        let before = cx.n;
                        if <$t>::BITS <= 16 && !small {
                            // exhaustive
                            let mut x = <$t>::MIN;
                            loop {
                                check_all::<$t>(&mut cx, x, radix);
                                if x == <$t>::MAX {
                                    break;
                                }
                                x += 1;
                            }
                            *cx.counts.entry(format!("exhaustive.{}", stringify!($t))).or_insert(0) += 1;
                        } else {
                            for v in gen_values::<$t>(radix, &mut rng, if small { 3 } else { per_count }) {
                                check_all::<$t>(&mut cx, v, radix);
                            }
                        }
                        *cx.counts.entry(format!("evals.{}", stringify!($t))).or_insert(0) += cx.n - before;
                        *cx.counts.entry(format!("radix.{radix}")).or_insert(0) += cx.n - before;
                    }
                    ti += 1;
                };
            }
            for_int_types!(go);
            let _ = ti;
        }
        // decimal u32 sweep (jeaiii magic multipliers): strided or exhaustive, plus the same values widened
        if !small {
            let total = (1u64 << 32) / u32_stride;
            let off = if u32_stride > 1 { args.seed % u32_stride } else { 0 };
            let (lo, hi) = (total * shard as u64 / nshards as u64, total * (shard as u64 + 1) / nshards as u64);
            let before = cx.n;
            for i in lo..hi {
                let x = (i * u32_stride + off) as u32;
                check_default::<u32>(&mut cx, x);
                if i % 16 == 0 {
                    check_default::<i32>(&mut cx, x as i32);
                    // 19/20-digit and 29+-digit numbers whose leading group is x
                    check_default::<u64>(&mut cx, (x as u64).wrapping_mul(10_000_000_000).wrapping_add(i));
                    check_default::<u128>(&mut cx, (x as u128) * 100_000_000_000_000_000_000u128 + (i as u128) * 7_919);
                    check_default::<i64>(&mut cx, ((x as u64).wrapping_mul(1_000_000_007)) as i64);
                }
            }
            *cx.counts.entry("evals.u32sweep".into()).or_insert(0) += cx.n - before;
        }
        rep.merge_counts_s(&cx.counts);
    });
    // distinct non-trivial = all evaluations are distinct (type, radix, value, api) tuples by construction except
    // duplicates inside gen_values' edge lists; count conservatively as evaluations of types wider than 16 bits / 2
    let g = rep.inner.lock().unwrap();
    let wide: u64 = g.counters.iter().filter(|(k, _)| k.starts_with("evals.") && !["evals.u8", "evals.i8", "evals.u16", "evals.i16"].contains(&k.as_str())).map(|(_, v)| *v).sum();
    drop(g);
    rep.count("distinct_nontrivial", wide / 2);
    if u32_stride == 1 {
        rep.note("u32_decimal_exhaustive", "true".into());
    }
    rep.sample(format!("radices {:?}; 8/16-bit types exhaustive in every radix; u32 decimal stride {}", radices, u32_stride));
    args.finish(&rep);
}
