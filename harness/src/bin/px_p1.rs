//! format-table parse executor: set SET_SEP, part 1 (see ../pexec_main.rs)
const SET: u32 = vharness::fmttab::SET_SEP;
const PART: usize = 1;
const fn fmt_of(i: usize) -> u128 {
    vharness::fmttab::build(&vharness::fmttab::desc_for(SET, vharness::fmttab::FMT_SEED, i))
}
const fn nosep_of(i: usize) -> u128 {
    vharness::fmttab::build(&vharness::fmttab::desc_for(SET, vharness::fmttab::FMT_SEED, i).without_sep())
}
fn desc_of<const FMT: u128>(i: usize) -> vharness::fmttab::Desc {
    vharness::fmttab::desc_for(SET, vharness::fmttab::FMT_SEED, i)
}
include!("../pexec_main.rs");
