//! C06: power-of-two radix float output is exact and round-trips (incl. mixed-base hex floats).
//! C07: generic radix output is well-formed, accepted by the parser, within 2048/256 ulp, exact for integers.
//! One executor, the property is selected by `prop=C06|C07` (which format classes are driven).
use std::collections::BTreeMap;
use vharness::exec::*;
use vharness::fgen::{self, Spec};
use vharness::guard::{self, Arena};
use vharness::oracle::{self, Kind};
use vharness::report::{self, obj, show, Args, Report};
use vharness::rng::Rng;
use vharness::{float_formats, fmts};

struct Cx<'a> {
    rep: &'a Report,
    cfg: String,
    prop: &'static str,
    counts: BTreeMap<String, u64>,
    arena: Arena,
    n: u64,
    nontrivial: u64,
    max_ulps_seen: u64,
}

fn bump(c: &mut BTreeMap<String, u64>, k: &str) {
    *c.entry(k.to_string()).or_insert(0) += 1;
}

fn viol<T: LFloat>(cx: &Cx, spec: &Spec, variant: &str, kind: &str, bits: u64, out: &[u8], detail: String) {
    let k = T::KIND;
    let rclass = if spec.radix != spec.base { "mixed-base" } else if spec.radix.is_power_of_two() { "pow2" } else { "generic" };
    let sig = format!("{}|{}|{}|{}", cx.prop, rclass, k.name(), kind);
    cx.rep.violation(
        &sig,
        obj(&[
            ("property", cx.prop.into()),
            ("config", cx.cfg.clone()),
            ("profile", vharness::profile_name().into()),
            ("type", k.name().into()),
            ("format", spec.name()),
            ("variant", variant.into()),
            ("bits", format!("{bits:#x}")),
            ("output", show(out)),
            ("detail", detail),
        ]),
    );
}

#[derive(Clone, Copy)]
struct Variant {
    name: &'static str,
    pos: Option<i32>,
    neg: Option<i32>,
}
const VARIANTS: &[Variant] = &[
    Variant { name: "default", pos: None, neg: None },
    Variant { name: "sci", pos: Some(1), neg: Some(-1) },
    Variant { name: "positional", pos: Some(1200), neg: Some(-1200) },
];

fn judge<T: LFloat, const FMT: u128>(
    cx: &mut Cx,
    spec: &Spec,
    var: &Variant,
    wopts: &lexical_core::WriteFloatOptions,
    popts: &lexical_core::ParseFloatOptions,
    bits: u64,
) {
    let k: Kind = T::KIND;
    let abs = bits & k.abs_mask();
    if abs >= k.inf_bits() {
        return;
    }
    cx.n += 1;
    let v = T::from_bits64(bits);
    let place = place_for(cx.n);
    let size = wopts.buffer_size_const::<T, FMT>();
    guard::set_crumb(format!("write {} {} {bits:#x} {}", spec.name(), k.name(), var.name).as_bytes());
    let out = match write_opt::<T, FMT>(&mut cx.arena, v, size, place, wopts) {
        Ok(o) => o,
        Err(p) => {
            viol::<T>(cx, spec, var.name, "panic", bits, b"", p);
            return;
        },
    };
    bump(&mut cx.counts, if k.mant_bits == 52 { "evals.f64" } else { "evals.f32" });
    if out.iter().any(|&b| b >= 0x80) {
        viol::<T>(cx, spec, var.name, "non-ascii", bits, &out, String::new());
        return;
    }
    // well-formed: digits valid for the radix, <= 1 point, <= 1 exponent with digits of the exponent radix
    let parts = match oracle::split_simple(&out, spec.radix, spec.exp_radix, spec.point, spec.exp_char) {
        Some(p) => p,
        None => {
            viol::<T>(cx, spec, var.name, "malformed", bits, &out, String::new());
            return;
        },
    };
    if out.iter().any(|b| b.is_ascii_lowercase() && *b != spec.exp_char) {
        viol::<T>(cx, spec, var.name, "lowercase-digit", bits, &out, String::new());
        return;
    }
    if parts.neg != (bits & k.sign_bit() != 0) {
        viol::<T>(cx, spec, var.name, "sign", bits, &out, String::new());
        return;
    }
    let x = parts.exact(spec.radix, spec.base, spec.exp_radix);
    let (m, p) = k.decode(abs);
    let pow2 = spec.radix.is_power_of_two();
    if pow2 {
        if !oracle::equals_float(k, &x, abs) {
            viol::<T>(cx, spec, var.name, "inexact", bits, &out, format!("denotes a value that rounds to {:#x}", oracle::round_nearest_even(k, &x)));
            return;
        }
    } else {
        let lim = if k.mant_bits == 52 { 2048 } else { 256 };
        if !oracle::within_ulps(k, &x, abs, lim) {
            viol::<T>(cx, spec, var.name, "beyond-ulp-bound", bits, &out, format!("nearest float of output: {:#x}", oracle::round_nearest_even(k, &x)));
            return;
        }
        // measure the worst distance observed (coarse: powers of two)
        let mut u = 1u64;
        while u < lim && !oracle::within_ulps(k, &x, abs, u) {
            u *= 2;
        }
        cx.max_ulps_seen = cx.max_ulps_seen.max(u);
        // integral floats below 2^(mant_bits+1) are written exactly
        let is_int = p >= 0 || (m & ((1u64 << (-p).min(63)) - 1)) == 0 && -p < 64;
        let small = abs < ((k.bias() as u64 + k.mant_bits as u64 + 1) << k.mant_bits);
        if is_int && small {
            bump(&mut cx.counts, "integer-checks");
            if !oracle::equals_float(k, &x, abs) {
                viol::<T>(cx, spec, var.name, "integer-inexact", bits, &out, String::new());
                return;
            }
        }
    }
    // accepted by the parser of the same format (complete); bits identical for power-of-two radices
    let r = parse_complete_opt::<T, FMT>(&mut cx.arena, &out, place, popts);
    match r {
        R::Ok(back, _) => {
            if pow2 && back.bits64() != bits {
                viol::<T>(cx, spec, var.name, "reparse-differs", bits, &out, format!("parsed back as {:#x}", back.bits64()));
            }
        },
        R::Err(e) => viol::<T>(cx, spec, var.name, "reparse-rejected", bits, &out, format!("{e:?}")),
        R::Panic(pm) => viol::<T>(cx, spec, var.name, "reparse-panic", bits, &out, pm),
    }
    if abs < (1u64 << k.mant_bits) || m.count_ones() > 20 || abs >= k.inf_bits() - (1u64 << k.mant_bits) {
        cx.nontrivial += 1;
    }
    if cx.n % 400_009 == 1 {
        cx.rep.sample(format!("{} {} {} {bits:#x} -> {}", spec.name(), var.name, k.name(), show(&out)));
    }
}

fn values(kind: Kind, spec: &Spec, rng: &mut Rng, thorough: bool, small: bool) -> Vec<u64> {
    let mut v = Vec::new();
    let per = if small { 0 } else if thorough { 24 } else { 3 };
    v.extend(fgen::binade_bits(kind, rng, per));
    let mmask = (1u64 << kind.mant_bits) - 1;
    // single-bit mantissas in a spread of binades (every residue of the exponent mod bits-per-digit)
    let nexp = (1u64 << kind.exp_bits) - 1;
    let estep = if small { 97 } else if thorough { 1 } else { 7 };
    let mut e = 0;
    while e < nexp {
        for s in 0..kind.mant_bits {
            if (s + e as u32) % 3 == 0 || thorough {
                v.push((e << kind.mant_bits) | (1u64 << s));
            }
        }
        v.push((e << kind.mant_bits) | (mmask - 1));
        e += estep;
    }
    // subnormals
    for s in 0..kind.mant_bits {
        v.push(1u64 << s);
        v.push((1u64 << s) | 1);
        v.push((1u64 << (s + 1)) - 1);
    }
    for i in 0..64 {
        v.push(i);
    }
    // powers of the radix +- 1 ulp, integers, carry chains 0.(r-1)(r-1)...
    let r = spec.radix as f64;
    let mut pw = 1.0f64;
    for _ in 0..(if kind.mant_bits == 52 { 1100.0 } else { 130.0 } / r.log2()) as usize + 1 {
        for val in [pw, 1.0 / pw, pw - 1.0, (pw - 1.0) / pw, pw * (r - 1.0), pw + 1.0] {
            let b = if kind.mant_bits == 52 { val.to_bits() } else { (val as f32).to_bits() as u64 };
            if b > 2 && b < kind.inf_bits() - 2 {
                v.push(b);
                v.push(b + 1);
                v.push(b - 1);
            }
        }
        pw *= r;
    }
    let nint = if small { 300 } else if thorough { 1 << 16 } else { 4096 };
    for i in 0..nint {
        let b = if kind.mant_bits == 52 { (i as f64).to_bits() } else { (i as f32).to_bits() as u64 };
        v.push(b);
    }
    let nrand = if small { 200 } else if thorough { 200_000 } else { 6000 };
    for i in 0..nrand {
        if i % 3 == 0 {
            // random integers below 2^(mant_bits+1)
            let x = rng.next_u64() >> (63 - kind.mant_bits) >> rng.below(kind.mant_bits as u64 + 1);
            let b = if kind.mant_bits == 52 { (x as f64).to_bits() } else { (x as f32).to_bits() as u64 };
            v.push(b);
        } else {
            v.push(rng.next_u64() % kind.inf_bits());
        }
    }
    // both signs for a sample
    let n = v.len();
    for i in (0..n).step_by(5) {
        v.push(v[i] | kind.sign_bit());
    }
    v
}

fn run_format<const FMT: u128>(cx: &mut Cx, spec: &Spec, seed: u64, thorough: bool, small: bool, replay: Option<(u64, bool)>) {
    let popts = lexical_core::ParseFloatOptions::builder().exponent(spec.exp_char).build().expect("parse options");
    for var in VARIANTS {
        let mut b = lexical_core::WriteFloatOptions::builder().exponent(spec.exp_char);
        if let Some(p) = var.pos {
            b = b.positive_exponent_break(core::num::NonZeroI32::new(p));
        }
        if let Some(n) = var.neg {
            b = b.negative_exponent_break(core::num::NonZeroI32::new(n));
        }
        let wopts = b.build().expect("write options");
        if let Some((bits, is32)) = replay {
            if is32 {
                judge::<f32, FMT>(cx, spec, var, &wopts, &popts, bits);
            } else {
                judge::<f64, FMT>(cx, spec, var, &wopts, &popts, bits);
            }
            continue;
        }
        let mut rng = Rng::stream(seed, 6000 + (spec.radix * 1369 + spec.base * 37 + spec.exp_radix) as u64);
        for b in values(oracle::F64, spec, &mut rng, thorough, small) {
            judge::<f64, FMT>(cx, spec, var, &wopts, &popts, b);
        }
        for b in values(oracle::F32, spec, &mut rng, thorough, small) {
            judge::<f32, FMT>(cx, spec, var, &wopts, &popts, b);
        }
    }
}

fn main() {
    let args = Args::parse();
    report::quiet_panics();
    guard::install();
    let rep = Report::new();
    let cfg = vharness::config_name();
    let prop: &'static str = if args.get("prop") == Some("C07") { "C07" } else { "C06" };
    rep.note("config", cfg.clone());
    rep.note("profile", vharness::profile_name().to_string());
    let thorough = args.thorough();
    let small = args.get("small").is_some();
    let replay_fmt = args.get("format").map(|s| s.to_string());
    let replay = args.get("replay").map(|s| (u64::from_str_radix(s.trim_start_matches("0x"), 16).unwrap(), args.get("type") == Some("f32")));
    let totals = std::sync::Mutex::new((0u64, 0u64));
    report::parallel(if replay.is_some() { 1 } else { args.threads }, |shard, nshards| {
        let mut cx = Cx { rep: &rep, cfg: cfg.clone(), prop, counts: BTreeMap::new(), arena: Arena::new(1 << 14), n: shard as u64, nontrivial: 0, max_ulps_seen: 0 };
        let mut idx = 0usize;
        macro_rules! go {
            ($r:literal, $b:literal, $x:literal) => {{
                let pow2 = ($r as u32).is_power_of_two();
                let wanted = (prop == "C06") == pow2;
                if wanted {
                    let exp_char = if $r == 16 && $b == 2 && $x == 10 { b'p' } else { b'^' };
                    let spec = Spec { radix: $r, base: $b, exp_radix: $x, point: b'.', exp_char };
                    let mine = match &replay_fmt {
                        Some(f) => *f == spec.name(),
                        None => idx % nshards == shard,
                    };
                    if mine {
                        const FMT: u128 = fmts::float_fmt($r, $b, $x);
                        run_format::<FMT>(&mut cx, &spec, args.seed, thorough, small, replay);
                        bump(&mut cx.counts, "formats");
                    }
                    idx += 1;
                }
            }};
        }
        float_formats!(go);
        let _ = idx;
        rep.merge_counts_s(&cx.counts);
        let mut t = totals.lock().unwrap();
        t.0 += cx.nontrivial;
        t.1 = t.1.max(cx.max_ulps_seen);
    });
    let t = totals.lock().unwrap();
    rep.count("distinct_nontrivial", t.0);
    rep.note("max_ulp_distance_bucket", format!("< {}", t.1.max(1)));
    args.finish(&rep);
}
