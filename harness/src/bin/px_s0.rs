//! format-table parse executor: set SET_SYNTAX, part 0 (see ../pexec_main.rs)
const SET: u32 = vharness::fmttab::SET_SYNTAX;
const PART: usize = 0;
const fn fmt_of(i: usize) -> u128 {
    vharness::fmttab::build(&vharness::fmttab::desc_for(SET, vharness::fmttab::FMT_SEED, i))
}
const fn nosep_of(i: usize) -> u128 {
    vharness::fmttab::build(&vharness::fmttab::desc_for(SET, vharness::fmttab::FMT_SEED, i).without_sep())
}
fn desc_of<const FMT: u128>(i: usize) -> vharness::fmttab::Desc {
    vharness::fmttab::desc_for(SET, vharness::fmttab::FMT_SEED, i)
}
include!("../pexec_main.rs");
