//! C05: non-decimal radix string -> float is correctly rounded (35 radices + mixed-base formats).
//! With `lossy=1` serves C19 for the same formats.
use std::collections::{BTreeMap, HashSet};
use vharness::exec::*;
use vharness::fgen::{self, Case, Spec};
use vharness::guard::{self, Arena};
use vharness::oracle::{self, Exact};
use vharness::report::{self, obj, show, Args, Report};
use vharness::rng::Rng;
use vharness::{float_formats, fmts};

fn hash(b: &[u8], salt: u64) -> u64 {
    let mut h = 0xcbf29ce484222325u64 ^ salt;
    for &c in b {
        h = (h ^ c as u64).wrapping_mul(0x100000001b3);
    }
    h
}

struct Cx<'a> {
    rep: &'a Report,
    cfg: String,
    lossy: bool,
    counts: BTreeMap<String, u64>,
    distinct: HashSet<u64>,
    arena: Arena,
    idx: u64,
}

fn bump(c: &mut BTreeMap<String, u64>, k: &str) {
    *c.entry(k.to_string()).or_insert(0) += 1;
}

fn judge<T: LFloat, const FMT: u128>(cx: &mut Cx, spec: &Spec, opts: &lexical_core::ParseFloatOptions, case: &Case) {
    let k = T::KIND;
    let text = &case.text;
    cx.idx += 1;
    let place = place_for(cx.idx);
    guard::set_crumb(text);
    let parts = match oracle::split_simple(text, spec.radix, spec.exp_radix, spec.point, spec.exp_char) {
        Some(p) => p,
        None => {
            bump(&mut cx.counts, "oracle-skip");
            return;
        },
    };
    let x = parts.exact(spec.radix, spec.base, spec.exp_radix);
    let sign = if parts.neg { k.sign_bit() } else { 0 };
    let results: Vec<(&'static str, R<T>)> = vec![
        ("parse_with_options", parse_complete_opt::<T, FMT>(&mut cx.arena, text, place, opts)),
        ("parse_partial_with_options", parse_partial_opt::<T, FMT>(&mut cx.arena, text, place, opts)),
    ];
    bump(&mut cx.counts, &format!("evals.{}", k.name()));
    bump(&mut cx.counts, &format!("tag.{}", case.tag));
    let mut expected: Option<u64> = None;
    let ndig = parts.int_digits.len() + parts.frac_digits.len();
    let step_digits = (64.0 / (spec.radix as f64).log2()).floor() as usize;
    for (entry, r) in &results {
        let bad: Option<&str> = match r {
            R::Ok(v, n) => {
                let b = v.bits64();
                let abs = b & k.abs_mask();
                if *n != text.len() {
                    Some("count")
                } else if k.is_nan(b) {
                    Some("nan")
                } else if (b & k.sign_bit()) != sign {
                    Some("sign")
                } else if cx.lossy {
                    let exact_ok = oracle::is_correctly_rounded(k, &x, abs);
                    let ok = exact_ok
                        || (abs > 0 && oracle::is_correctly_rounded(k, &x, abs - 1))
                        || (abs < k.inf_bits() && oracle::is_correctly_rounded(k, &x, abs + 1));
                    if !ok {
                        Some("lossy-beyond-1ulp")
                    } else if !exact_ok {
                        bump(&mut cx.counts, "lossy-off-by-one");
                        // results that are zero / infinity when correctly rounded must be unchanged
                        if oracle::clearly_zero(k, &x) || oracle::clearly_inf(k, &x) {
                            Some("lossy-zero-inf")
                        } else {
                            None
                        }
                    } else {
                        None
                    }
                } else if !oracle::is_correctly_rounded(k, &x, abs) {
                    Some("rounding")
                } else {
                    None
                }
            },
            R::Err(_) => Some("rejected"),
            R::Panic(_) => Some("panic"),
        };
        if let Some(kind) = bad {
            let exp = *expected.get_or_insert_with(|| oracle::round_nearest_even(k, &x) | sign);
            let many = if ndig > step_digits { "many-digits" } else { "few-digits" };
            let rclass = if spec.radix != spec.base {
                "mixed-base"
            } else if spec.radix.is_power_of_two() {
                "pow2"
            } else {
                "generic"
            };
            let prop = if cx.lossy { "C19" } else { "C05" };
            let sig = format!("{prop}|{}|{}|{}|{}", rclass, k.name(), kind, many);
            cx.rep.violation(
                &sig,
                obj(&[
                    ("property", prop.to_string()),
                    ("config", cx.cfg.clone()),
                    ("profile", vharness::profile_name().to_string()),
                    ("type", k.name().to_string()),
                    ("format", spec.name()),
                    ("exp_char", (spec.exp_char as char).to_string()),
                    ("entry", entry.to_string()),
                    ("input", show(text)),
                    ("expected_bits", format!("{exp:#x}")),
                    ("observed", show_r_float(r)),
                    ("tag", case.tag.to_string()),
                ]),
            );
        }
    }
    let edge = match &results[0].1 {
        R::Ok(v, _) => {
            let abs = v.bits64() & k.abs_mask();
            abs == k.inf_bits() || abs < (2u64 << k.mant_bits)
        },
        _ => true,
    };
    let boundary = case.tag.contains("halfway") || case.tag.contains("tie") || case.tag == "fastpath-limit" || case.tag == "extreme-exp";
    if boundary || ndig > step_digits || edge {
        cx.distinct.insert(hash(text, (spec.radix * 64 + spec.base) as u64 * 64 + spec.exp_radix as u64 + ((k.mant_bits as u64) << 32)));
    }
    if cx.idx % 20011 == 1 {
        cx.rep.sample(format!("{} {} {} [{}] -> {}", spec.name(), k.name(), show(&text[..text.len().min(100)]), case.tag, show_r_float(&results[0].1)));
    }
}

fn run_format<const FMT: u128>(cx: &mut Cx, spec: &Spec, seed: u64, thorough: bool, small: bool, only: Option<&[u8]>) {
    let opts = lexical_core::ParseFloatOptions::builder().exponent(spec.exp_char).lossy(cx.lossy).build().expect("options");
    if let Some(text) = only {
        let c = Case { text: text.to_vec(), tag: "replay" };
        judge::<f64, FMT>(cx, spec, &opts, &c);
        judge::<f32, FMT>(cx, spec, &opts, &c);
        return;
    }
    let mut rng = Rng::stream(seed, 5000 + (spec.radix * 1369 + spec.base * 37 + spec.exp_radix) as u64);
    let per_binade = if thorough { 6 } else { 0 };
    let mut brng = Rng::stream(seed, 7);
    let b64 = fgen::binade_bits(oracle::F64, &mut brng, per_binade);
    let b32 = fgen::binade_bits(oracle::F32, &mut brng, per_binade + 1);
    let stride64 = if small { 211 } else if thorough { 1 } else { 2 };
    let stride32 = if small { 53 } else { 1 };
    let off = (seed as usize) % stride64;
    for (i, &b) in b64.iter().enumerate() {
        if i % stride64 != off % stride64 {
            continue;
        }
        let mut cases = Vec::new();
        fgen::halfway_family(spec, oracle::F64, b, &mut rng, thorough, &mut |c| cases.push(c));
        for c in &cases {
            judge::<f64, FMT>(cx, spec, &opts, c);
            if cx.idx % 8 == 0 {
                judge::<f32, FMT>(cx, spec, &opts, c);
            }
        }
    }
    for (i, &b) in b32.iter().enumerate() {
        if i % stride32 != 0 {
            continue;
        }
        let mut cases = Vec::new();
        fgen::halfway_family(spec, oracle::F32, b, &mut rng, thorough, &mut |c| cases.push(c));
        for c in &cases {
            judge::<f32, FMT>(cx, spec, &opts, c);
            if cx.idx % 8 == 0 {
                judge::<f64, FMT>(cx, spec, &opts, c);
            }
        }
    }
    for kind in [oracle::F64, oracle::F32] {
        let mut cases = Vec::new();
        fgen::structure_family(spec, kind, &mut rng, thorough, &mut |c| cases.push(c));
        for (i, c) in cases.iter().enumerate() {
            if small && i % 41 != 0 {
                continue;
            }
            if c.text.len() > 60000 {
                continue;
            }
            if kind == oracle::F64 {
                judge::<f64, FMT>(cx, spec, &opts, c);
            } else {
                judge::<f32, FMT>(cx, spec, &opts, c);
            }
        }
    }
}

fn main() {
    let args = Args::parse();
    report::quiet_panics();
    guard::install();
    let rep = Report::new();
    let cfg = vharness::config_name();
    let lossy = args.get("lossy").is_some();
    rep.note("config", cfg.clone());
    rep.note("profile", vharness::profile_name().to_string());
    let thorough = args.thorough();
    let small = args.get("small").is_some();
    let triples = fmts::float_triples();
    rep.note("formats", format!("{triples:?}"));
    let total_distinct = std::sync::Mutex::new(0u64);
    let replay_fmt = args.get("format").map(|s| s.to_string());
    let replay_text = args.get("replay").map(report::unshow);

    report::parallel(if replay_text.is_some() { 1 } else { args.threads }, |shard, nshards| {
        let mut cx = Cx { rep: &rep, cfg: cfg.clone(), lossy, counts: BTreeMap::new(), distinct: HashSet::new(), arena: Arena::new(1 << 16), idx: shard as u64 };
        let mut idx = 0usize;
        macro_rules! go {
            ($r:literal, $b:literal, $x:literal) => {
                {
                    let exp_char = if $r == 16 && $b == 2 && $x == 10 { b'p' } else { b'^' };
                    let spec = Spec { radix: $r, base: $b, exp_radix: $x, point: b'.', exp_char };
                    let mine = match &replay_fmt {
                        Some(f) => *f == spec.name(),
                        None => idx % nshards == shard,
                    };
                    if mine {
                        const FMT: u128 = fmts::float_fmt($r, $b, $x);
                        run_format::<FMT>(&mut cx, &spec, args.seed, thorough, small, replay_text.as_deref());
                    }
                    idx += 1;
                }
            };
        }
        float_formats!(go);
        let _ = idx;
        rep.merge_counts_s(&cx.counts);
        *total_distinct.lock().unwrap() += cx.distinct.len() as u64;
    });
    rep.count("distinct_nontrivial", *total_distinct.lock().unwrap());
    args.finish(&rep);
}
