//! C09 (integers): every integer type x every radix of the configuration, written through write_with_options into a
//! buffer of exactly the documented bound (`buffer_size_const`) and into every shorter length, on both sides of a
//! guard page with a canary zone on the other side.  Also feeds C08 (parse back) and C17 (to_string equality, ASCII).
use std::collections::BTreeMap;
use vharness::exec::*;
use vharness::guard::{self, Arena, Place};
use vharness::report::{self, obj, show, Args, Report};
use vharness::rng::Rng;
use vharness::{fmts, for_int_types, radix_dispatch};

struct Cx<'a> {
    rep: &'a Report,
    cfg: String,
    prop: Option<String>,
    counts: BTreeMap<&'static str, u64>,
    arena: Arena,
    n: u64,
    distinct: u64,
    small: bool,
}
fn bump(cx: &mut Cx, k: &'static str) {
    *cx.counts.entry(k).or_insert(0) += 1;
}
fn viol(cx: &Cx, prop: &str, class: &str, radix: u32, ty: &str, value: String, out: &[u8], detail: String) {
    if let Some(p) = &cx.prop {
        if p != prop {
            return;
        }
    }
    let rclass = if radix == 10 { "decimal" } else if radix.is_power_of_two() { "pow2" } else { "generic" };
    cx.rep.violation(
        &format!("{prop}|{class}|{rclass}|int"),
        obj(&[("property", prop.into()), ("config", cx.cfg.clone()), ("profile", vharness::profile_name().into()), ("radix", radix.to_string()), ("type", ty.into()), ("value", value), ("output", show(out)), ("detail", detail)]),
    );
}

fn judge<T: LInt, const FMT: u128>(cx: &mut Cx, radix: u32, v: T) {
    cx.n += 1;
    let place = place_for(cx.n);
    let ty = T::NAME;
    let wopts = lexical_core::WriteIntegerOptions::new();
    let popts = lexical_core::ParseIntegerOptions::new();
    let bound = wopts.buffer_size_const::<T, FMT>();
    let documented = if radix == 10 { T::FORMATTED_SIZE_DECIMAL } else { T::FORMATTED_SIZE };
    if bound != documented {
        viol(cx, "C09", "buffer_size_const-differs-from-FORMATTED_SIZE", radix, ty, format!("{v}"), b"", format!("{bound} vs {documented}"));
    }
    let vs = format!("{v}");
    guard::set_crumb(format!("write {ty} radix {radix} {vs} L={bound}").as_bytes());
    let w = write_opt_w::<T, FMT>(&mut cx.arena, v, bound, place, &wopts);
    bump(cx, "evals.int");
    if !w.zone_ok {
        viol(cx, "C09", "wrote-outside-slice", radix, ty, vs.clone(), b"", format!("canary next to the {bound}-byte buffer damaged"));
    }
    let out = match w.res {
        Ok(o) => o,
        Err(p) => {
            viol(cx, "C09", "panic-at-documented-bound", radix, ty, vs, b"", format!("L={bound}: {p}"));
            return;
        },
    };
    if !w.at_start {
        viol(cx, "C09", "returned-slice-not-a-prefix", radix, ty, vs.clone(), &out, String::new());
    }
    let (neg, mag) = v.split();
    let want = ref_numeral(neg, mag, radix, false);
    if out != want {
        viol(cx, "C08", "integer-output-not-the-numeral", radix, ty, vs.clone(), &out, format!("expected {}", show(&want)));
    }
    if out.iter().any(|&b| b >= 0x80) {
        viol(cx, "C17", "non-ascii-output", radix, ty, vs.clone(), &out, String::new());
    }
    guard::set_crumb(format!("to_string_with_options {ty} radix {radix} {vs}").as_bytes());
    match report::catch(|| lexical::to_string_with_options::<T, FMT>(v, &wopts)) {
        Ok(s) => {
            if s.as_bytes() != &out[..] {
                viol(cx, "C17", "to_string-differs-from-core", radix, ty, vs.clone(), &out, format!("to_string_with_options: {}", show(s.as_bytes())));
            }
            bump(cx, "c17.to_string-compared");
        },
        Err(p) => viol(cx, "C17", "to_string-panicked", radix, ty, vs.clone(), &out, p),
    }
    match parse_complete_opt::<T, FMT>(&mut cx.arena, &out, place, &popts) {
        R::Ok(back, _) => {
            if back != v {
                viol(cx, "C08", "value-read-back-differently", radix, ty, vs.clone(), &out, format!("parsed back as {back}"));
            }
        },
        R::Err(e) => viol(cx, "C08", "output-rejected-by-parser", radix, ty, vs.clone(), &out, format!("{e:?}")),
        R::Panic(p) => viol(cx, "C08", "parser-panicked-on-output", radix, ty, vs.clone(), &out, p),
    }
    bump(cx, "c08.reparsed");
    // every shorter buffer (thinned for long bounds), both placements
    for l in 0..bound {
        let near = l + 2 >= out.len() && l <= out.len() + 1;
        if !(near || l < 2 || l + 1 == bound || (l % 9 == (cx.n % 9) as usize && !cx.small)) {
            continue;
        }
        for pl in [Place::Tail, Place::Head] {
            if cx.small && pl == Place::Head {
                continue;
            }
            guard::set_crumb(format!("write {ty} radix {radix} {vs} L={l} {pl:?}").as_bytes());
            let ws = write_opt_w::<T, FMT>(&mut cx.arena, v, l, pl, &wopts);
            bump(cx, "c09.short-buffer-writes");
            if !ws.zone_ok {
                viol(cx, "C09", "wrote-outside-slice", radix, ty, vs.clone(), b"", format!("canary next to the {l}-byte buffer damaged"));
            }
            match ws.res {
                Ok(o) => {
                    bump(cx, "c09.short-buffer-succeeded");
                    if !ws.at_start || o.len() > l {
                        viol(cx, "C09", "returned-slice-not-a-prefix", radix, ty, vs.clone(), &o, format!("L={l}"));
                    }
                },
                Err(_) => bump(cx, "c09.short-buffer-panicked"),
            }
        }
    }
    cx.distinct += 1;
    if cx.n % 100_003 == 11 {
        cx.rep.sample(format!("{ty} radix {radix} {vs} -> {} (bound {bound})", show(&out)));
    }
}

fn values<T: LInt>(rng: &mut Rng, radix: u32, n: usize) -> Vec<T> {
    let mut v: Vec<T> = Vec::new();
    for neg in [false, true] {
        let mx = T::max_mag(neg);
        for m in [0u128, 1, 2, mx, mx.saturating_sub(1), mx / 2, mx / radix as u128, radix as u128 - 1, radix as u128] {
            if let Some(x) = T::join(neg, m.min(mx)) {
                v.push(x);
            }
        }
        let mut p = 1u128;
        while p <= mx / radix as u128 {
            p *= radix as u128;
            for m in [p - 1, p] {
                if let Some(x) = T::join(neg, m.min(mx)) {
                    v.push(x);
                }
            }
        }
    }
    for _ in 0..n {
        v.push(T::wrap(rng.next_u128() >> rng.below(T::BITS as u64)));
    }
    v
}

fn main() {
    let args = Args::parse();
    report::quiet_panics();
    guard::install();
    let rep = Report::new();
    let cfg = vharness::config_name();
    rep.note("config", cfg.clone());
    rep.note("profile", vharness::profile_name().to_string());
    let prop = args.get("prop").map(|s| s.to_string());
    let small = args.get("small").is_some() || cfg!(miri);
    let nrand = if small { 2 } else if args.thorough() { 3000 } else { 150 };
    let radices = fmts::radices();
    let items: Vec<(usize, u32)> = (0..12).flat_map(|t| radices.iter().map(move |&r| (t, r))).collect();
    let total = std::sync::Mutex::new(0u64);
    report::parallel(args.threads, |shard, nshards| {
        let mut cx = Cx { rep: &rep, cfg: cfg.clone(), prop: prop.clone(), counts: BTreeMap::new(), arena: Arena::new(1 << 12), n: shard as u64, distinct: 0, small };
        for (i, &(t, radix)) in items.iter().enumerate() {
            if i % nshards != shard {
                continue;
            }
            let mut rng = Rng::stream(args.seed, 9000 + i as u64);
            let mut ti = 0;
            macro_rules! go {
                ($t:ty) => {
                    if ti == t {
                        let vals = values::<$t>(&mut rng, radix, nrand);
                        radix_dispatch!(radix, FMT, {
                            for &v in &vals {
                                judge::<$t, FMT>(&mut cx, radix, v);
                            }
                        });
                    }
                    ti += 1;
                };
            }
            for_int_types!(go);
            let _ = ti;
        }
        rep.merge_counts(&cx.counts);
        *total.lock().unwrap() += cx.distinct;
    });
    rep.count("distinct_nontrivial", *total.lock().unwrap());
    args.finish(&rep);
}
