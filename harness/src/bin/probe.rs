//! triage helper: probe <type> <input shown-encoded> -> default-API complete and partial results
use vharness::report::unshow;
fn main() {
    let a: Vec<String> = std::env::args().collect();
    let inp = unshow(&a[2]);
    macro_rules! go {
        ($($t:ty)*) => {$(
            if a[1] == stringify!($t) {
                println!("complete: {:?}", lexical_core::parse::<$t>(&inp));
                println!("partial : {:?}", lexical_core::parse_partial::<$t>(&inp));
            }
        )*};
    }
    go!(u8 i8 u64 i64 f32 f64);
}
