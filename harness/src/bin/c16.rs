//! C16: cargo features are additive.  One fixed, seeded workload for the DEFAULT (decimal, STANDARD) API:
//! parse / parse_partial of every string for all 14 types, write of every value for all types.  The source and
//! the workload are identical in every build configuration; every call/return event is rendered as one text
//! record and hashed into per-(stream, lane, chunk) digests, which ./check compares across configurations.
//! `dump=<stream>:<lane>:<chunk>` re-runs one chunk and emits its records so that a differing digest can be
//! resolved to the individual events.
//!
//! streams:  parse  - (type, input) -> complete and partial result (value bits, count | error kind, index | panic)
//!           iw     - (type, value) -> integer output bytes
//!           fw     - (type, bits)  -> float output bytes               (compared among non-compact builds)
//!           fwv    - (type, bits)  -> value of the float output read by core::str::parse (compared among all builds)
use std::collections::BTreeMap;
use vharness::exec::*;
use vharness::fgen::{self, Spec};
use vharness::guard::{self, Arena};
use vharness::oracle;
use vharness::report::{self, show, Args, Report};
use vharness::rng::Rng;
use vharness::wgen;

const LANES: usize = 64;
const CHUNK: usize = 2048;
const STREAMS: [&str; 4] = ["parse", "iw", "fw", "fwv"];

struct Lane {
    lane: usize,
    /// per stream: (records in current chunk, running hash, finished chunk digests)
    st: Vec<(usize, u64, Vec<u64>)>,
    dump: Option<(usize, usize)>, // (stream index, chunk)
    dumped: Vec<String>,
    samples: Vec<String>,
    counts: BTreeMap<&'static str, u64>,
    arena: Arena,
    n: u64,
    nontrivial: u64,
}

fn fnv(h: u64, bytes: &[u8]) -> u64 {
    let mut h = h;
    for &b in bytes {
        h ^= b as u64;
        h = h.wrapping_mul(0x100000001b3);
    }
    h
}

impl Lane {
    fn emit(&mut self, stream: usize, rec: String) {
        let s = &mut self.st[stream];
        if let Some((ds, dc)) = self.dump {
            if ds == stream && dc == s.2.len() {
                self.dumped.push(rec.clone());
            }
        }
        if self.samples.len() < 2 && (s.0 + self.lane * 31) % 1777 == 5 {
            self.samples.push(rec.clone());
        }
        s.1 = fnv(fnv(s.1, rec.as_bytes()), b"\n");
        s.0 += 1;
        if s.0 == CHUNK {
            s.2.push(s.1);
            s.0 = 0;
            s.1 = 0xcbf29ce484222325;
        }
    }
    fn finish(&mut self) {
        for s in self.st.iter_mut() {
            if s.0 > 0 {
                s.2.push(s.1);
                s.0 = 0;
            }
        }
    }
}

fn rf<T: LFloat>(r: &R<T>) -> String {
    match r {
        R::Ok(v, n) => {
            let b = v.bits64();
            if T::KIND.is_nan(b) {
                format!("Ok(NaN,{n})")
            } else {
                format!("Ok({b:#x},{n})")
            }
        },
        R::Err(e) => format!("Err({e:?})"),
        R::Panic(_) => "Panic".to_string(),
    }
}
fn ri<T: LInt>(r: &R<T>) -> String {
    match r {
        R::Ok(v, n) => format!("Ok({v},{n})"),
        R::Err(e) => format!("Err({e:?})"),
        R::Panic(_) => "Panic".to_string(),
    }
}

fn parse_float<T: LFloat>(l: &mut Lane, input: &[u8]) {
    l.n += 1;
    let place = place_for(l.n);
    guard::set_crumb(input);
    let c = parse_complete::<T>(&mut l.arena, input, place);
    let p = parse_partial::<T>(&mut l.arena, input, place);
    if !matches!(c, R::Ok(..)) || input.len() > 19 {
        l.nontrivial += 1;
    }
    let rec = format!("{} {} -> c={} p={}", T::KIND.name(), show(input), rf(&c), rf(&p));
    l.emit(0, rec);
    *l.counts.entry("evals.parse-float").or_insert(0) += 1;
}
fn parse_int<T: LInt>(l: &mut Lane, input: &[u8]) {
    l.n += 1;
    let place = place_for(l.n);
    guard::set_crumb(input);
    let c = parse_complete::<T>(&mut l.arena, input, place);
    let p = parse_partial::<T>(&mut l.arena, input, place);
    if !matches!(c, R::Ok(..)) {
        l.nontrivial += 1;
    }
    let rec = format!("{} {} -> c={} p={}", T::NAME, show(input), ri(&c), ri(&p));
    l.emit(0, rec);
    *l.counts.entry("evals.parse-int").or_insert(0) += 1;
}
fn write_int<T: LInt>(l: &mut Lane, v: T) {
    l.n += 1;
    let place = place_for(l.n);
    let w = write_default_w::<T>(&mut l.arena, v, T::FORMATTED_SIZE_DECIMAL, place);
    let rec = match &w.res {
        Ok(o) => format!("{} {v} -> {}", T::NAME, show(o)),
        Err(_) => format!("{} {v} -> Panic", T::NAME),
    };
    l.emit(1, rec);
    l.nontrivial += 1;
    *l.counts.entry("evals.write-int").or_insert(0) += 1;
}
fn write_float<T: LFloat>(l: &mut Lane, bits: u64) {
    l.n += 1;
    let place = place_for(l.n);
    let v = T::from_bits64(bits);
    let w = write_default_w::<T>(&mut l.arena, v, T::FORMATTED_SIZE_DECIMAL, place);
    let name = T::KIND.name();
    match &w.res {
        Ok(o) => {
            l.emit(2, format!("{name} {bits:#x} -> {}", show(o)));
            let back = std::str::from_utf8(o).ok().and_then(T::std_parse);
            let rec = match back {
                Some(b) if T::KIND.is_nan(b.bits64()) => format!("{name} {bits:#x} => NaN"),
                Some(b) => format!("{name} {bits:#x} => {:#x}", b.bits64()),
                None => format!("{name} {bits:#x} => unreadable {}", show(o)),
            };
            l.emit(3, rec);
        },
        Err(_) => {
            l.emit(2, format!("{name} {bits:#x} -> Panic"));
            l.emit(3, format!("{name} {bits:#x} => Panic"));
        },
    }
    l.nontrivial += 1;
    *l.counts.entry("evals.write-float").or_insert(0) += 1;
}

/// decimal numerals around the limits of a type, as strings (string arithmetic, no overflow)
fn int_strings<T: LInt>(rng: &mut Rng, n: usize, out: &mut Vec<Vec<u8>>) {
    let bump_last = |s: &str, by: i32| -> String {
        // add `by` (+-1, +-2) to a decimal string, no sign
        if by < 0 && s.len() < 3 && s.parse::<i32>().unwrap() < -by {
            return "0".to_string();
        }
        let mut d: Vec<i32> = s.bytes().map(|b| (b - b'0') as i32).collect();
        let mut i = d.len();
        let mut carry = by;
        while carry != 0 {
            if i == 0 {
                d.insert(0, 0);
                i = 1;
            }
            i -= 1;
            let v = d[i] + carry;
            d[i] = v.rem_euclid(10);
            carry = v.div_euclid(10);
        }
        let t: String = d.iter().map(|&x| (b'0' + x as u8) as char).collect();
        let t = t.trim_start_matches('0').to_string();
        if t.is_empty() {
            "0".into()
        } else {
            t
        }
    };
    let maxs = T::max_mag(false).to_string();
    let mins = T::max_mag(true).to_string();
    let mut base: Vec<String> = Vec::new();
    for by in [-2, -1, 0, 1, 2, 10] {
        base.push(bump_last(&maxs, by));
        base.push(format!("-{}", bump_last(&mins, by)));
        base.push(format!("+{}", bump_last(&maxs, by)));
    }
    base.push(format!("{maxs}0"));
    base.push(format!("-{mins}0"));
    for s in ["0", "-0", "+0", "00", "1", "-1", "", "+", "-", "--1", "+-1", "1-", "1+", " 1", "1 ", "0x1", "1_0", "1.0", "1e3", "١"] {
        base.push(s.to_string());
    }
    for s in &base {
        out.push(s.as_bytes().to_vec());
        if rng.chance(1, 2) {
            let zeros = "0".repeat(1 + rng.below(40) as usize);
            let (sign, rest) = match s.as_bytes().first() {
                Some(b'-') | Some(b'+') => s.split_at(1),
                _ => ("", s.as_str()),
            };
            out.push(format!("{sign}{zeros}{rest}").into_bytes());
        }
        if !s.is_empty() {
            let mut t = s.as_bytes().to_vec();
            let at = rng.below(t.len() as u64) as usize;
            t[at] = *rng.pick(b"a/:_ \x00\x80\xff+-.");
            out.push(t);
            out.push(s.as_bytes()[..rng.below(s.len() as u64) as usize].to_vec());
        }
    }
    let maxlen = maxs.len() + 2;
    for _ in 0..n {
        let len = 1 + rng.below(maxlen as u64) as usize;
        let mut t = Vec::new();
        match rng.below(6) {
            0 => t.push(b'-'),
            1 => t.push(b'+'),
            _ => {},
        }
        for _ in 0..len {
            t.push(b'0' + rng.below(10) as u8);
        }
        if rng.chance(1, 12) {
            t.push(*rng.pick(b"a_ .e\x80"));
        }
        out.push(t);
    }
}

fn run_lane(l: &mut Lane, seed: u64, thorough: bool) {
    let lane = l.lane;
    let mut rng = Rng::stream(seed, 16000 + lane as u64);
    let spec = Spec::DECIMAL;
    // ---- float strings: halfway families of the binades dealt to this lane
    let mut brng = Rng::stream(seed, 16999);
    let per = if thorough { 8 } else { 1 };
    let b64 = fgen::binade_bits(oracle::F64, &mut brng, per);
    let b32 = fgen::binade_bits(oracle::F32, &mut brng, per * 2);
    for (i, &b) in b64.iter().enumerate() {
        if i % LANES != lane || (!thorough && (i / LANES) % 3 != 0) {
            continue;
        }
        let mut cases = Vec::new();
        fgen::halfway_family(&spec, oracle::F64, b, &mut rng, false, &mut |c| cases.push(c));
        for (j, c) in cases.iter().enumerate() {
            parse_float::<f64>(l, &c.text);
            if j % 4 == 0 {
                parse_float::<f32>(l, &c.text);
            }
        }
    }
    for (i, &b) in b32.iter().enumerate() {
        if i % LANES != lane || (!thorough && (i / LANES) % 3 != 0) {
            continue;
        }
        let mut cases = Vec::new();
        fgen::halfway_family(&spec, oracle::F32, b, &mut rng, false, &mut |c| cases.push(c));
        for (j, c) in cases.iter().enumerate() {
            parse_float::<f32>(l, &c.text);
            if j % 4 == 0 {
                parse_float::<f64>(l, &c.text);
            }
        }
    }
    if lane < 2 {
        let kind = if lane == 0 { oracle::F64 } else { oracle::F32 };
        let mut cases = Vec::new();
        fgen::structure_family(&spec, kind, &mut rng, thorough, &mut |c| cases.push(c));
        for c in &cases {
            if c.text.len() > 20000 {
                continue;
            }
            parse_float::<f64>(l, &c.text);
            parse_float::<f32>(l, &c.text);
        }
    }
    if lane == 2 {
        for kind in [oracle::F64, oracle::F32] {
            let mut cases = Vec::new();
            fgen::short_ties(kind, &mut rng, &mut |c| cases.push(c));
            for c in &cases {
                parse_float::<f64>(l, &c.text);
                parse_float::<f32>(l, &c.text);
            }
        }
    }
    // ---- hostile strings for every type (special-string neighbourhoods, splices, random bytes)
    let seeds: [&[u8]; 30] = [
        b"", b"0", b"-0", b"+1", b"1.5", b"-1.5e3", b"1e", b"1e+", b".", b".5", b"5.", b"nan", b"NaN", b"inf", b"-infinity", b"infinit", b"INF", b"+nan", b"1_000", b"0x10", b"1e400",
        b"1e-400", b"123abc", b"4.9e-324", b"2.4703282292062327e-324", b"1.7976931348623158e308", b"9007199254740993", b"0.1e1000000000000000000000", b"00000.00000e0", b"1e0000000000000000000000000000001",
    ];
    let nh = if thorough { 6000 } else { 700 };
    let mut hostile: Vec<Vec<u8>> = Vec::new();
    if lane == 3 {
        hostile.extend(seeds.iter().map(|s| s.to_vec()));
        // every 1- and 2-byte string over an informative alphabet
        let alpha = b"0179+-.eEnaif_ \x00\x80\xff";
        for &a in alpha.iter() {
            hostile.push(vec![a]);
            for &b in alpha.iter() {
                hostile.push(vec![a, b]);
            }
        }
    }
    for _ in 0..nh {
        let mut s = rng.pick(&seeds).to_vec();
        for _ in 0..1 + rng.below(3) {
            let at = rng.below(s.len() as u64 + 1) as usize;
            match rng.below(3) {
                0 if !s.is_empty() => {
                    s.remove(at.min(s.len() - 1));
                },
                1 => s.insert(at, *rng.pick(b"0123456789+-.eEnaifNIF_ \x00\x80\xff")),
                _ => s.insert(at, rng.next_u64() as u8),
            }
        }
        hostile.push(s);
    }
    for s in &hostile {
        parse_float::<f64>(l, s);
        parse_float::<f32>(l, s);
        macro_rules! pi {
            ($t:ty) => {
                parse_int::<$t>(l, s);
            };
        }
        vharness::for_int_types!(pi);
    }
    // ---- integer strings around each type's limits
    let ni = if thorough { 1500 } else { 120 };
    macro_rules! ints {
        ($t:ty) => {{
            let mut v = Vec::new();
            int_strings::<$t>(&mut rng, ni, &mut v);
            for s in &v {
                parse_int::<$t>(l, s);
            }
        }};
    }
    vharness::for_int_types!(ints);
    // ---- values to write
    let nv = if thorough { 4000 } else { 400 };
    macro_rules! wints {
        ($t:ty) => {{
            for neg in [false, true] {
                let mx = <$t as LInt>::max_mag(neg);
                for m in [0u128, 1, 9, 10, 99, 100, mx, mx.saturating_sub(1), mx / 10] {
                    if let Some(x) = <$t as LInt>::join(neg, m.min(mx)) {
                        write_int::<$t>(l, x);
                    }
                }
            }
            for _ in 0..nv {
                write_int::<$t>(l, <$t as LInt>::wrap(rng.next_u128() >> rng.below(<$t as LInt>::BITS as u64)));
            }
        }};
    }
    vharness::for_int_types!(wints);
    for kind in [oracle::F64, oracle::F32] {
        let mut vals = wgen::float_values(kind, 10, &mut rng, nv * 4, false);
        let n0 = vals.len();
        for i in (0..n0).step_by(4) {
            vals.push(vals[i] | kind.sign_bit());
        }
        vals.extend(wgen::special_values(kind));
        for b in vals {
            if kind.mant_bits == 52 {
                write_float::<f64>(l, b);
            } else {
                write_float::<f32>(l, b);
            }
        }
    }
    l.finish();
}

fn main() {
    let args = Args::parse();
    report::quiet_panics();
    guard::install();
    let rep = Report::new();
    let cfg = vharness::config_name();
    rep.note("config", cfg.clone());
    rep.note("profile", vharness::profile_name().to_string());
    let thorough = args.thorough();
    // dump=<stream>:<lane>:<chunk>
    let dump: Option<(usize, usize, usize)> = args.get("dump").map(|s| {
        let f: Vec<&str> = s.split(':').collect();
        (STREAMS.iter().position(|x| *x == f[0]).expect("stream"), f[1].parse().unwrap(), f[2].parse().unwrap())
    });
    let totals = std::sync::Mutex::new(0u64);
    let lanes_todo: Vec<usize> = match dump {
        Some((_, lane, _)) => vec![lane],
        None => (0..LANES).collect(),
    };
    report::parallel(if dump.is_some() { 1 } else { args.threads }, |shard, nshards| {
        for (i, &lane) in lanes_todo.iter().enumerate() {
            if i % nshards != shard {
                continue;
            }
            let mut l = Lane {
                lane,
                st: (0..STREAMS.len()).map(|_| (0usize, 0xcbf29ce484222325u64, Vec::new())).collect(),
                dump: dump.map(|(s, _, c)| (s, c)),
                dumped: Vec::new(),
                samples: Vec::new(),
                counts: BTreeMap::new(),
                arena: Arena::new(1 << 16),
                n: lane as u64,
                nontrivial: 0,
            };
            run_lane(&mut l, args.seed, thorough);
            for (si, name) in STREAMS.iter().enumerate() {
                let hs: Vec<String> = l.st[si].2.iter().map(|h| format!("{h:016x}")).collect();
                rep.note(&format!("h.{name}.{lane:02}"), hs.join(","));
            }
            if dump.is_some() {
                rep.note("dump", l.dumped.join("\n"));
            }
            rep.merge_counts(&l.counts);
            for smp in l.samples.drain(..) {
                rep.sample(format!("lane {lane}: {smp}"));
            }
            *totals.lock().unwrap() += l.nontrivial;
        }
    });
    rep.count("distinct_nontrivial", *totals.lock().unwrap());
    args.finish(&rep);
}
