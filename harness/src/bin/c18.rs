//! C18: format and options validation is sound and complete.
//!  A. run-time sweep of format descriptions: `NumberFormatBuilder::rebuild(fmt).build_strict()` panics exactly
//!     for the formats the documented constraints call invalid (reference: refgram::format_validity); builders
//!     round-trip through rebuild; every builder getter reflects the corresponding setter.
//!  B. compile-time sample (format tables + all prebuilt formats): format_is_valid / format_error / the
//!     NumberFormat getters agree with the description; every prebuilt format is valid.
//!  C. options builders: is_valid == build().is_ok() == documented constraints; getters reflect setters; rebuild round trip.
//!  D. parsing with punctuation options that clash with a (valid) format returns a configuration error from every
//!     float entry point, and never a configuration error when they do not clash.
//! (Parsing with INVALID formats is driven by the px_i0 format-table executor, prop=C18.)
use core::num::NonZeroU8;
use std::collections::BTreeMap;
use vharness::exec::*;
use vharness::fmttab::{self, *};
use vharness::guard::{self, Arena};
use vharness::oracle::digit_value;
use vharness::refgram::{self, Validity};
use vharness::report::{self, obj, show, Args, Report};
use vharness::rng::Rng;
use lexical_core::NumberFormatBuilder;

struct Cx<'a> {
    rep: &'a Report,
    cfg: String,
    counts: BTreeMap<&'static str, u64>,
    distinct: u64,
    arena: Arena,
    n: u64,
}
fn bump(cx: &mut Cx, k: &'static str) {
    *cx.counts.entry(k).or_insert(0) += 1;
}
fn viol(cx: &Cx, class: &str, what: String, detail: String) {
    cx.rep.violation(&format!("C18|{class}"), obj(&[("property", "C18".into()), ("config", cx.cfg.clone()), ("profile", vharness::profile_name().into()), ("case", what), ("detail", detail)]));
}

/// semantic normal form of a packed format: an exponent base / exponent radix of 0 means "same as the mantissa radix"
fn sem(f: u128) -> u128 {
    // documented packed layout (lexical-util format_flags.rs): mantissa radix, exponent base, exponent radix bytes
    const MANTISSA_RADIX_SHIFT: u32 = 104;
    const EXPONENT_BASE_SHIFT: u32 = 112;
    const EXPONENT_RADIX_SHIFT: u32 = 120;
    let m = (f >> MANTISSA_RADIX_SHIFT) & 0xff;
    let mut g = f;
    if (f >> EXPONENT_BASE_SHIFT) & 0xff == 0 {
        g |= m << EXPONENT_BASE_SHIFT;
    }
    if (f >> EXPONENT_RADIX_SHIFT) & 0xff == 0 {
        g |= m << EXPONENT_RADIX_SHIFT;
    }
    g
}

fn lex_valid(fmt: u128) -> Result<(), String> {
    report::catch(|| NumberFormatBuilder::rebuild(fmt).build_strict()).map(|_| ())
}

/// A: one description through the run-time builder
fn judge_desc(cx: &mut Cx, d0: &Desc) {
    cx.n += 1;
    let fmt = fmttab::build(d0);
    // the digit separator is only packed when a separator flag uses it (documented on build_unchecked's source:
    // a separator without flags has no meaning), so the format is judged without it
    let d0 = &fmttab::effective(d0);
    let dd = if cfg!(feature = "format") && !d0.any_sep_flags() { Desc { sep: 0, ..*d0 } } else { *d0 };
    let d = &dd;
    let lex = lex_valid(fmt);
    bump(cx, "evals.format-validity");
    match (refgram::format_validity(d), &lex) {
        (Validity::Unsure(_), _) => bump(cx, "c18.unsure"),
        (Validity::Valid, Ok(())) => bump(cx, "c18.valid"),
        (Validity::Invalid(_), Err(_)) => {
            bump(cx, "c18.invalid");
            cx.distinct += 1;
        },
        (Validity::Valid, Err(m)) => viol(cx, "valid-format-rejected", d.name(), format!("build_strict panicked: {m}")),
        (Validity::Invalid(why), Ok(())) => viol(cx, "invalid-format-accepted", d.name(), format!("documented constraint violated: {why}")),
    }
    // rebuild round trip
    let b = NumberFormatBuilder::rebuild(fmt);
    let again = b.build_unchecked();
    if sem(again) != sem(fmt) {
        viol(cx, "rebuild-not-faithful", d.name(), format!("{fmt:#034x} -> rebuild -> {again:#034x}"));
    }
    // getter reflection (fields the enabled features let the builder set)
    let pow2 = cfg!(feature = "power-of-two");
    let format = cfg!(feature = "format");
    let mut bad: Vec<String> = Vec::new();
    let mut chk = |name: &str, got: u64, want: u64| {
        if got != want {
            bad.push(format!("{name}: getter {got} setter {want}"));
        }
    };
    let opt = |x: Option<NonZeroU8>| x.map(|v| v.get() as u64).unwrap_or(0);
    if pow2 {
        chk("mantissa_radix", b.get_mantissa_radix() as u64, d.radix as u64);
        // None ("same as the mantissa radix") may come back as Some(radix)
        let eb = opt(b.get_exponent_base());
        if !(eb == d.base as u64 || (d.base == 0 && eb == d.radix as u64)) {
            chk("exponent_base", eb, d.base as u64);
        }
        let er = opt(b.get_exponent_radix());
        if !(er == d.exp_radix as u64 || (d.exp_radix == 0 && er == d.radix as u64)) {
            chk("exponent_radix", er, d.exp_radix as u64);
        }
    }
    if format {
        chk("digit_separator", opt(b.get_digit_separator()), d.sep as u64);
        if pow2 {
            chk("base_prefix", opt(b.get_base_prefix()), d.prefix as u64);
            chk("base_suffix", opt(b.get_base_suffix()), d.suffix as u64);
            chk("case_sensitive_base_prefix", b.get_case_sensitive_base_prefix() as u64, d.has(CSBP) as u64);
            chk("case_sensitive_base_suffix", b.get_case_sensitive_base_suffix() as u64, d.has(CSBS) as u64);
        }
        chk("required_integer_digits", b.get_required_integer_digits() as u64, d.has(RID) as u64);
        chk("required_fraction_digits", b.get_required_fraction_digits() as u64, d.has(RFD) as u64);
        chk("required_exponent_digits", b.get_required_exponent_digits() as u64, d.has(RED) as u64);
        chk("required_mantissa_digits", b.get_required_mantissa_digits() as u64, d.has(RMD) as u64);
        chk("no_positive_mantissa_sign", b.get_no_positive_mantissa_sign() as u64, d.has(NPMS) as u64);
        chk("required_mantissa_sign", b.get_required_mantissa_sign() as u64, d.has(RMS) as u64);
        chk("no_exponent_notation", b.get_no_exponent_notation() as u64, d.has(NEN) as u64);
        chk("no_positive_exponent_sign", b.get_no_positive_exponent_sign() as u64, d.has(NPES) as u64);
        chk("required_exponent_sign", b.get_required_exponent_sign() as u64, d.has(RES) as u64);
        chk("no_exponent_without_fraction", b.get_no_exponent_without_fraction() as u64, d.has(NEWF) as u64);
        chk("no_special", b.get_no_special() as u64, d.has(NSP) as u64);
        chk("case_sensitive_special", b.get_case_sensitive_special() as u64, d.has(CSS) as u64);
        chk("no_integer_leading_zeros", b.get_no_integer_leading_zeros() as u64, d.has(NILZ) as u64);
        chk("no_float_leading_zeros", b.get_no_float_leading_zeros() as u64, d.has(NFLZ) as u64);
        chk("required_exponent_notation", b.get_required_exponent_notation() as u64, d.has(REN) as u64);
        chk("case_sensitive_exponent", b.get_case_sensitive_exponent() as u64, d.has(CSE) as u64);
        chk("integer_internal_digit_separator", b.get_integer_internal_digit_separator() as u64, d.has(sepflag(0, 0)) as u64);
        chk("integer_leading_digit_separator", b.get_integer_leading_digit_separator() as u64, d.has(sepflag(0, 1)) as u64);
        chk("integer_trailing_digit_separator", b.get_integer_trailing_digit_separator() as u64, d.has(sepflag(0, 2)) as u64);
        chk("integer_consecutive_digit_separator", b.get_integer_consecutive_digit_separator() as u64, d.has(sepflag(0, 3)) as u64);
        chk("fraction_internal_digit_separator", b.get_fraction_internal_digit_separator() as u64, d.has(sepflag(1, 0)) as u64);
        chk("fraction_leading_digit_separator", b.get_fraction_leading_digit_separator() as u64, d.has(sepflag(1, 1)) as u64);
        chk("fraction_trailing_digit_separator", b.get_fraction_trailing_digit_separator() as u64, d.has(sepflag(1, 2)) as u64);
        chk("fraction_consecutive_digit_separator", b.get_fraction_consecutive_digit_separator() as u64, d.has(sepflag(1, 3)) as u64);
        chk("exponent_internal_digit_separator", b.get_exponent_internal_digit_separator() as u64, d.has(sepflag(2, 0)) as u64);
        chk("exponent_leading_digit_separator", b.get_exponent_leading_digit_separator() as u64, d.has(sepflag(2, 1)) as u64);
        chk("exponent_trailing_digit_separator", b.get_exponent_trailing_digit_separator() as u64, d.has(sepflag(2, 2)) as u64);
        chk("exponent_consecutive_digit_separator", b.get_exponent_consecutive_digit_separator() as u64, d.has(sepflag(2, 3)) as u64);
        chk("special_digit_separator", b.get_special_digit_separator() as u64, d.has(SSEP) as u64);
    }
    bump(cx, "c18.getter-sets-compared");
    if !bad.is_empty() {
        viol(cx, "getter-does-not-reflect-setter", d.name(), bad.join("; "));
    }
    if cx.n % 200_003 == 7 {
        cx.rep.sample(format!("A: {} -> lexical {} / documented {:?}", d.name(), if lex.is_ok() { "valid" } else { "invalid" }, refgram::format_validity(d)));
    }
}

fn sweep_formats(cx: &mut Cx, shard: usize, nshards: usize, seed: u64, thorough: bool) {
    let mut k = 0usize;
    let mut mine = || {
        k += 1;
        (k - 1) % nshards == shard
    };
    let base = Desc::STANDARD;
    // all 2^18 syntax-flag words
    for w in 0..(1u64 << N_SYNTAX) {
        if mine() {
            judge_desc(cx, &Desc { flags: w, ..base });
        }
    }
    // all 2^13 separator-flag words x {separator set, unset}
    for w in 0..(1u64 << 13) {
        for sep in [0u8, b'_'] {
            if mine() {
                judge_desc(cx, &Desc { flags: DEFAULT_FLAGS | (w << 20), sep, ..base });
            }
        }
    }
    // every byte value for each character / radix field (decimal and hex contexts)
    for v in 0..=255u8 {
        for radix in [10u8, 16, 36, 2] {
            let ctx = Desc { radix, ..base };
            if mine() {
                judge_desc(cx, &Desc { sep: v, flags: DEFAULT_FLAGS | sepflag(0, 0), ..ctx });
                judge_desc(cx, &Desc { prefix: v, ..ctx });
                judge_desc(cx, &Desc { suffix: v, ..ctx });
                judge_desc(cx, &Desc { sep: v, ..ctx });
            }
        }
        if mine() {
            judge_desc(cx, &Desc { radix: v, ..base });
            judge_desc(cx, &Desc { base: v, ..base });
            judge_desc(cx, &Desc { exp_radix: v, ..base });
            judge_desc(cx, &Desc { radix: 16, base: v, exp_radix: 10, ..base });
            judge_desc(cx, &Desc { radix: v, base: 2, exp_radix: 10, ..base });
        }
    }
    // pairs of punctuation characters (distinctness) over an informative set, and every radix x ASCII character
    let chars: Vec<u8> = b"_,'xXhHdDeE pP^09aAzZ+-.\x00\x01\x7f\x80\xff".to_vec();
    for &a in &chars {
        for &b in &chars {
            if mine() {
                judge_desc(cx, &Desc { sep: a, prefix: b, flags: DEFAULT_FLAGS | sepflag(0, 0), ..base });
                judge_desc(cx, &Desc { sep: a, suffix: b, flags: DEFAULT_FLAGS | sepflag(1, 0), ..base });
                judge_desc(cx, &Desc { prefix: a, suffix: b, ..base });
                judge_desc(cx, &Desc { radix: 16, prefix: a, suffix: b, ..base });
            }
        }
    }
    for radix in 0..=40u8 {
        for c in 0..128u8 {
            if mine() {
                judge_desc(cx, &Desc { radix, sep: c, flags: DEFAULT_FLAGS | sepflag(2, 0), ..base });
                judge_desc(cx, &Desc { radix, prefix: c, ..base });
                judge_desc(cx, &Desc { radix: 10, exp_radix: radix, suffix: c, ..base });
            }
        }
    }
    // seeded joint samples over all fields
    let mut rng = Rng::stream(seed, 18000 + shard as u64);
    let n = if thorough { 4_000_000 } else { 400_000 } / nshards;
    let rads = [10u8, 10, 10, 16, 2, 8, 36, 3, 0, 1, 37, 11];
    for _ in 0..n {
        let mut f = 0u64;
        for b in 0..33 {
            let p = if b < 18 { 5 } else { 4 };
            if b >= 18 && b < 20 {
                continue;
            }
            if rng.chance(1, p) {
                f |= 1 << b;
            }
        }
        if rng.chance(1, 2) {
            f |= DEFAULT_FLAGS;
        }
        let pick = |rng: &mut Rng| if rng.chance(1, 2) { 0 } else { *rng.pick(&chars) };
        let d = Desc { radix: *rng.pick(&rads), base: if rng.chance(2, 3) { 0 } else { *rng.pick(&rads) }, exp_radix: if rng.chance(2, 3) { 0 } else { *rng.pick(&rads) }, sep: pick(&mut rng), prefix: pick(&mut rng), suffix: pick(&mut rng), flags: f };
        judge_desc(cx, &d);
    }
}

/// B: compile-time sample
fn judge_const<const FMT: u128>(cx: &mut Cx, d: Option<Desc>, label: &str) {
    cx.n += 1;
    bump(cx, "evals.const-formats");
    let valid = lexical_core::format_is_valid::<FMT>();
    let err = lexical_core::format_error::<FMT>();
    if valid != (err == lexical_core::Error::Success) {
        viol(cx, "format_is_valid-disagrees-with-format_error", label.to_string(), format!("is_valid={valid} error={err:?}"));
    }
    if valid != lex_valid(FMT).is_ok() {
        viol(cx, "format_is_valid-disagrees-with-build_strict", label.to_string(), format!("is_valid={valid}"));
    }
    let rb = lexical_core::NumberFormat::<FMT>::rebuild().build_unchecked();
    if sem(rb) != sem(FMT) {
        viol(cx, "rebuild-not-faithful", label.to_string(), format!("{FMT:#034x} -> NumberFormat::rebuild -> {rb:#034x}"));
    }
    match d {
        Some(d) => {
            match (refgram::format_validity(&d), valid) {
                (Validity::Valid, false) => viol(cx, "valid-format-rejected", d.name(), format!("{err:?}")),
                (Validity::Invalid(why), true) => viol(cx, "invalid-format-accepted", d.name(), why.to_string()),
                _ => {},
            }
            // the NumberFormat getters (decode) must give the description back
            if valid && cfg!(feature = "format") && cfg!(feature = "power-of-two") {
                let got = fmttab::decode::<FMT>();
                let norm = |x: Desc| Desc { base: if x.base == x.radix { 0 } else { x.base }, exp_radix: if x.exp_radix == x.radix { 0 } else { x.exp_radix }, ..x };
                if norm(got) != norm(d) {
                    viol(cx, "getter-does-not-reflect-setter", d.name(), format!("NumberFormat getters give {}", got.name()));
                }
            }
        },
        None => {
            if !valid {
                viol(cx, "prebuilt-format-invalid", label.to_string(), format!("{err:?}"));
            }
        },
    }
    cx.distinct += 1;
}

fn sweep_const(cx: &mut Cx) {
    macro_rules! set {
        ($set:expr, $($i:literal)*) => {$(
            {
                const D: Desc = fmttab::effective(&fmttab::desc_for($set, FMT_SEED, $i));
                const FMT: u128 = fmttab::build(&D);
                judge_const::<FMT>(cx, Some(if D.any_sep_flags() { D } else { Desc { sep: 0, ..D } }), "table");
            }
        )*};
    }
    set!(SET_SYNTAX, 0 1 2 3 4 5 6 7 8 9 10 11 12 13 14 15 16 17 18 19 20 21 22 23 24 25 26 27 28 29 30 31 32 33 34 35 36 37 38 39 40 41 42 43 44 45 46 47 48 49 50 51 52 53 54 55 56 57 58 59 60 61 62 63 64 65 66 67 68 69 70 71 72 73 74 75 76 77 78 79 80 81 82 83 84 85 86 87 88 89 90 91 92 93 94 95 96 97 98 99 100 101 102 103 104 105 106 107 108 109 110 111 112 113 114 115 116 117 118 119 120 121 122 123 124 125 126 127);
    set!(SET_SEP, 0 1 2 3 4 5 6 7 8 9 10 11 12 13 14 15 16 17 18 19 20 21 22 23 24 25 26 27 28 29 30 31 32 33 34 35 36 37 38 39 40 41 42 43 44 45 46 47 48 49 50 51 52 53 54 55 56 57 58 59 60 61 62 63 64 65 66 67 68 69 70 71 72 73 74 75 76 77 78 79 80 81 82 83 84 85 86 87 88 89 90 91 92 93 94 95 96 97 98 99 100 101 102 103 104 105 106 107 108 109 110 111 112 113 114 115 116 117 118 119 120 121 122 123 124 125 126 127);
    set!(SET_INVALID, 0 1 2 3 4 5 6 7 8 9 10 11 12 13 14 15 16 17 18 19 20 21 22 23 24 25 26 27 28 29 30 31 32 33 34 35 36 37 38 39 40 41 42 43 44 45 46 47 48 49 50 51 52 53 54 55 56 57 58 59 60 61 62 63 64 65 66 67 68 69 70 71 72 73 74 75 76 77 78 79 80 81 82 83 84 85 86 87 88 89 90 91 92 93 94 95 96 97 98 99 100 101 102 103 104 105 106 107 108 109 110 111 112 113 114 115 116 117 118 119 120 121 122 123 124 125 126 127);
    set!(SET_WRITE, 0 1 2 3 4 5 6 7 8 9 10 11 12 13 14 15 16 17 18 19 20 21 22 23 24 25 26 27 28 29 30 31 32 33 34 35 36 37 38 39 40 41 42 43 44 45 46 47 48 49 50 51 52 53 54 55 56 57 58 59 60 61 62 63 64 65 66 67 68 69 70 71 72 73 74 75 76 77 78 79 80 81 82 83 84 85 86 87 88 89 90 91 92 93 94 95 96 97 98 99 100 101 102 103 104 105 106 107 108 109 110 111 112 113 114 115 116 117 118 119 120 121 122 123 124 125 126 127);
    #[cfg(all(feature = "format", feature = "power-of-two"))]
    {
        macro_rules! pre {
            ($($i:literal)*) => {$(
                {
                    const FMT: u128 = fmttab::prebuilt::ALL[$i];
                    judge_const::<FMT>(cx, None, concat!("prebuilt #", stringify!($i)));
                }
            )*};
        }
        pre!(0 1 2 3 4 5 6 7 8 9 10 11 12 13 14 15 16 17 18 19 20 21 22 23 24 25 26 27 28 29 30 31 32 33 34 35 36 37 38 39 40 41 42 43 44 45 46 47 48 49 50 51 52 53 54 55 56 57 58 59 60 61 62 63 64 65 66 67 68 69 70 71 72 73 74 75 76 77 78 79 80 81 82 83 84 85 86 87 88 89 90 91 92 93 94 95 96 97 98 99 100 101 102 103 104 105 106 107 108 109 110 111 112 113 114 115 116 117 118 119 120 121 122 123 124 125 126 127 128 129 130 131 132 133 134 135 136 137 138 139 140 141 142 143 144 145 146);
    }
}

/// documented range of punctuation characters: [0x09, 0x0D] and [0x20, 0x7F] (whether DEL itself is included is not
/// settled by the wording: `ascii_unsettled`)
fn ascii_ok(c: u8) -> bool {
    (0x09..=0x0d).contains(&c) || (0x20..0x7f).contains(&c)
}
fn ascii_unsettled(c: u8) -> bool {
    c == 0x7f
}
fn special_ok(s: Option<&'static [u8]>, first: &[u8]) -> bool {
    match s {
        None => true,
        Some(s) => !s.is_empty() && s.len() <= 50 && first.contains(&s[0]) && s.iter().all(|c| c.is_ascii_alphabetic()),
    }
}
fn leak(v: Vec<u8>) -> &'static [u8] {
    Box::leak(v.into_boxed_slice())
}

/// C: options builders
fn sweep_options(cx: &mut Cx, seed: u64, thorough: bool) {
    let mut rng = Rng::stream(seed, 18500);
    let strings = |rng: &mut Rng, first: &[u8]| -> Option<&'static [u8]> {
        match rng.below(12) {
            0 => None,
            1 => Some(b""),
            2 => Some(leak(vec![*rng.pick(first)])),
            3 => Some(leak(std::iter::once(*rng.pick(first)).chain((0..49).map(|_| b'a')).collect())),
            4 => Some(leak(std::iter::once(*rng.pick(first)).chain((0..50).map(|_| b'b')).collect())),
            5 => Some(leak(vec![b'x', b'y'])),
            6 => {
                let mut v = vec![*rng.pick(first), b'q', b'r'];
                let at = rng.below(3) as usize;
                v[at] = *rng.pick(b"1_ .-\x80@[`{");
                Some(leak(v))
            },
            _ => {
                let l = 1 + rng.below(9) as usize;
                let mut v = vec![*rng.pick(first)];
                for _ in 1..l {
                    v.push(*rng.pick(b"abcdefghijklmnopqrstuvwxyzABCDEFGHIJKLMNOPQRSTUVWXYZ"));
                }
                Some(leak(v))
            },
        }
    };
    let n = if thorough { 400_000 } else { 60_000 };
    for i in 0..n {
        let exp = if i < 256 { i as u8 } else if rng.chance(1, 3) { rng.next_u64() as u8 } else { *rng.pick(b"eEpP^@") };
        let point = if (256..512).contains(&i) { (i - 256) as u8 } else if rng.chance(1, 3) { rng.next_u64() as u8 } else { *rng.pick(b".,; ") };
        let nan = if rng.chance(1, 2) { Some(&b"NaN"[..]) } else { strings(&mut rng, b"nN") };
        let inf = if rng.chance(1, 2) { Some(&b"inf"[..]) } else { strings(&mut rng, b"iI") };
        let infinity = if rng.chance(1, 2) { Some(&b"infinity"[..]) } else { strings(&mut rng, b"iI") };
        let lossy = rng.chance(1, 2);
        // ---- parse float options
        let b = lexical_core::ParseFloatOptions::builder().lossy(lossy).exponent(exp).decimal_point(point).nan_string(nan).inf_string(inf).infinity_string(infinity);
        let built = b.build();
        let iv = b.is_valid();
        bump(cx, "evals.options");
        let documented_bad = !ascii_ok(exp) || !ascii_ok(point) || !special_ok(nan, b"nN") || !special_ok(inf, b"iI") || !special_ok(infinity, b"iI") || matches!((inf, infinity), (Some(a), Some(b)) if b.len() < a.len());
        let unsettled = ascii_unsettled(exp) || ascii_unsettled(point);
        let documented_bad = documented_bad && !(unsettled && special_ok(nan, b"nN") && special_ok(inf, b"iI") && special_ok(infinity, b"iI") && !matches!((inf, infinity), (Some(a), Some(b)) if b.len() < a.len()) && (ascii_ok(exp) || ascii_unsettled(exp)) && (ascii_ok(point) || ascii_unsettled(point)));
        let documented_good = !documented_bad && !unsettled && !(inf.is_some() && infinity.is_none());
        let what = format!("ParseFloatOptions exponent={exp:#x} decimal_point={point:#x} nan={:?} inf={:?} infinity={:?}", nan.map(show), inf.map(show), infinity.map(show));
        if iv != built.is_ok() {
            viol(cx, "options-is_valid-disagrees-with-build:parse-float", what.clone(), format!("is_valid={iv} build={:?}", built.as_ref().err()));
        }
        if documented_bad && built.is_ok() {
            viol(cx, "invalid-options-accepted", what.clone(), String::new());
        }
        if documented_good && built.is_err() {
            viol(cx, "valid-options-rejected", what.clone(), format!("{:?}", built.as_ref().err()));
        }
        if documented_bad {
            cx.distinct += 1;
        }
        let o = b.build_unchecked();
        if o.lossy() != lossy || o.exponent() != exp || o.decimal_point() != point || o.nan_string() != nan || o.inf_string() != inf || o.infinity_string() != infinity || b.get_lossy() != lossy || b.get_exponent() != exp || b.get_decimal_point() != point || b.get_nan_string() != nan || b.get_inf_string() != inf || b.get_infinity_string() != infinity {
            viol(cx, "getter-does-not-reflect-setter", what.clone(), "options getters".into());
        }
        if o.rebuild().build_unchecked() != o {
            viol(cx, "rebuild-not-faithful", what.clone(), "ParseFloatOptions".into());
        }
        // ---- write float options
        let mx = if rng.chance(1, 2) { None } else { core::num::NonZeroUsize::new(1 + rng.below(80) as usize) };
        let mn = if rng.chance(1, 2) { None } else { core::num::NonZeroUsize::new(1 + rng.below(80) as usize) };
        let pb = if rng.chance(1, 2) { None } else { core::num::NonZeroI32::new(rng.range(-30, 400) as i32) };
        let nb = if rng.chance(1, 2) { None } else { core::num::NonZeroI32::new(rng.range(-400, 30) as i32) };
        let trim = rng.chance(1, 2);
        let trunc = rng.chance(1, 2);
        let mut wb = lexical_core::WriteFloatOptions::builder().max_significant_digits(mx).min_significant_digits(mn).positive_exponent_break(pb).negative_exponent_break(nb).trim_floats(trim).exponent(exp).decimal_point(point).nan_string(nan).inf_string(inf);
        if trunc {
            wb = wb.round_mode(lexical_core::write_float_options::RoundMode::Truncate);
        }
        let wbuilt = wb.build();
        let wiv = wb.is_valid();
        let wwhat = format!("WriteFloatOptions max={mx:?} min={mn:?} pos={pb:?} neg={nb:?} exponent={exp:#x} decimal_point={point:#x} nan={:?} inf={:?}", nan.map(show), inf.map(show));
        if wiv != wbuilt.is_ok() {
            let class = if ascii_ok(exp) && ascii_ok(point) && special_ok(nan, b"nN") && special_ok(inf, b"iI") { "options-is_valid-disagrees-with-build:write-float:digits-or-breaks" } else { "options-is_valid-disagrees-with-build:write-float" };
            viol(cx, class, wwhat.clone(), format!("is_valid={wiv} build={:?}", wbuilt.as_ref().err()));
        }
        let wbad = !ascii_ok(exp) || !ascii_ok(point) || !special_ok(nan, b"nN") || !special_ok(inf, b"iI") || matches!((mx, mn), (Some(a), Some(b)) if b.get() > a.get()) || pb.map(|v| v.get() < 0).unwrap_or(false) || nb.map(|v| v.get() > 0).unwrap_or(false);
        let wunsettled = ascii_unsettled(exp) || ascii_unsettled(point);
        let wbad = wbad && !wunsettled;
        if wbad && wbuilt.is_ok() {
            viol(cx, "invalid-options-accepted", wwhat.clone(), String::new());
        }
        if !wbad && !wunsettled && wbuilt.is_err() {
            viol(cx, "valid-options-rejected", wwhat.clone(), format!("{:?}", wbuilt.as_ref().err()));
        }
        let wo = wb.build_unchecked();
        if wo.max_significant_digits() != mx || wo.min_significant_digits() != mn || wo.positive_exponent_break() != pb || wo.negative_exponent_break() != nb || wo.trim_floats() != trim || wo.exponent() != exp || wo.decimal_point() != point || wo.nan_string() != nan || wo.inf_string() != inf
            || wb.get_max_significant_digits() != mx || wb.get_min_significant_digits() != mn || wb.get_positive_exponent_break() != pb || wb.get_negative_exponent_break() != nb || wb.get_trim_floats() != trim || wb.get_exponent() != exp || wb.get_decimal_point() != point || wb.get_nan_string() != nan || wb.get_inf_string() != inf
            || (wo.round_mode() == lexical_core::write_float_options::RoundMode::Truncate) != trunc
        {
            viol(cx, "getter-does-not-reflect-setter", wwhat.clone(), "options getters".into());
        }
        if wo.rebuild().build_unchecked() != wo {
            viol(cx, "rebuild-not-faithful", wwhat.clone(), "WriteFloatOptions".into());
        }
        // ---- parse integer options
        let ib = lexical_core::ParseIntegerOptions::builder().no_multi_digit(lossy);
        let io = ib.build_unchecked();
        if io.get_no_multi_digit() != lossy || ib.get_no_multi_digit() != lossy || io.rebuild().build_unchecked() != io || !ib.is_valid() || ib.build().is_err() {
            viol(cx, "getter-does-not-reflect-setter", format!("ParseIntegerOptions no_multi_digit={lossy}"), String::new());
        }
        if i % 9973 == 1 {
            cx.rep.sample(format!("C: {what} -> is_valid={iv} build={:?}", built.as_ref().map(|_| "Ok").map_err(|e| format!("{e:?}"))));
        }
    }
}

/// D: punctuation options that clash with the format
fn punct_format<const FMT: u128>(cx: &mut Cx, d: &Desc) {
    let maxr = (d.radix as u32).max(d.eradix()).max(d.ebase());
    let inputs: [&[u8]; 5] = [b"1", b"", b"1.5e3", b"nan", b"\x80"];
    for point in 0..=128u8 {
        for exp in 0..=128u8 {
            // thin the valid x valid interior, keep every pair that involves an interesting character
            let interesting = |c: u8| digit_value(c) < 36 || c == b'+' || c == b'-' || c == d.sep || c == d.prefix || c == d.suffix || c < 0x21 || c >= 0x7f || c == b'.' || c == b'^';
            if !(interesting(point) || interesting(exp) || point == exp || (point as u32 * 7 + exp as u32) % 23 == 0) {
                continue;
            }
            let opts = lexical_core::ParseFloatOptions::builder().decimal_point(point).exponent(exp).build_unchecked();
            let bad_char = |c: u8| c >= 0x80 || digit_value(c) < maxr || c == b'+' || c == b'-' || (cfg!(feature = "format") && c != 0 && (c == d.sep || c == d.prefix || c == d.suffix));
            let unsettled = |c: u8| !bad_char(c) && !ascii_ok(c) && (ascii_unsettled(c) || c < 0x20);
            let verdict = if bad_char(point) || bad_char(exp) || point == exp {
                Some(false)
            } else if unsettled(point) || unsettled(exp) {
                None
            } else {
                Some(true)
            };
            for inp in inputs.iter() {
                cx.n += 1;
                let place = place_for(cx.n);
                guard::set_crumb(inp);
                let rs = [
                    ("f64 complete", cfg_err(&parse_complete_opt::<f64, FMT>(&mut cx.arena, inp, place, &opts))),
                    ("f64 partial", cfg_err(&parse_partial_opt::<f64, FMT>(&mut cx.arena, inp, place, &opts))),
                    ("f32 complete", cfg_err(&parse_complete_opt::<f32, FMT>(&mut cx.arena, inp, place, &opts))),
                    ("f32 partial", cfg_err(&parse_partial_opt::<f32, FMT>(&mut cx.arena, inp, place, &opts))),
                ];
                bump(cx, "evals.punctuation-parses");
                for (entry, r) in rs {
                    let what = format!("{} decimal_point={point:#x} exponent={exp:#x} input={}", d.name(), show(inp));
                    match (verdict, r) {
                        (Some(false), Outcome::Config) | (Some(true), Outcome::Other) | (None, _) => {},
                        (Some(false), Outcome::Other) => viol(cx, "clashing-punctuation-not-rejected", what, entry.to_string()),
                        (Some(true), Outcome::Config) => viol(cx, "valid-punctuation-rejected", what, entry.to_string()),
                        (_, Outcome::Panic(m)) => viol(cx, "panic-on-punctuation-options", what, format!("{entry}: {m}")),
                    }
                }
            }
            if verdict == Some(false) {
                cx.distinct += 1;
            }
        }
    }
}
enum Outcome {
    Config,
    Other,
    Panic(String),
}
fn cfg_err<T: Copy>(r: &R<T>) -> Outcome {
    match r {
        R::Err(e) if e.index().is_none() => Outcome::Config,
        R::Panic(m) => Outcome::Panic(m.clone()),
        _ => Outcome::Other,
    }
}

fn sweep_punct(cx: &mut Cx, shard: usize, nshards: usize) {
    let mut k = 0usize;
    macro_rules! one {
        ($d:expr) => {{
            const D: Desc = fmttab::effective(&$d);
            const FMT: u128 = fmttab::build(&D);
            if lexical_core::format_is_valid::<FMT>() {
                if k % nshards == shard {
                    punct_format::<FMT>(cx, &D);
                    bump(cx, "formats");
                }
                k += 1;
            }
        }};
    }
    one!(Desc::STANDARD);
    one!(Desc { radix: 16, ..Desc::STANDARD });
    one!(Desc { radix: 16, base: 2, exp_radix: 10, ..Desc::STANDARD });
    one!(Desc { radix: 10, exp_radix: 16, ..Desc::STANDARD });
    one!(Desc { radix: 2, ..Desc::STANDARD });
    one!(Desc { radix: 36, ..Desc::STANDARD });
    one!(Desc { radix: 3, exp_radix: 10, ..Desc::STANDARD });
    one!(Desc { radix: 12, ..Desc::STANDARD });
    one!(Desc { sep: b'_', flags: DEFAULT_FLAGS | sepflag(0, 0) | sepflag(1, 0), ..Desc::STANDARD });
    one!(Desc { sep: b',', prefix: b'd', suffix: b'm', flags: DEFAULT_FLAGS | sepflag(0, 0), ..Desc::STANDARD });
    one!(Desc { radix: 16, prefix: b'x', suffix: b'h', ..Desc::STANDARD });
    one!(Desc { radix: 8, prefix: b'o', sep: b'\'', flags: DEFAULT_FLAGS | sepflag(2, 0), ..Desc::STANDARD });
    let _ = k;
}

fn main() {
    let args = Args::parse();
    report::quiet_panics();
    guard::install();
    let rep = Report::new();
    let cfg = vharness::config_name();
    rep.note("config", cfg.clone());
    rep.note("profile", vharness::profile_name().to_string());
    rep.note("fmt_seed", FMT_SEED.to_string());
    let thorough = args.thorough();
    let total = std::sync::Mutex::new(0u64);
    report::parallel(args.threads, |shard, nshards| {
        let mut cx = Cx { rep: &rep, cfg: cfg.clone(), counts: BTreeMap::new(), distinct: 0, arena: Arena::new(1 << 12), n: shard as u64 };
        sweep_formats(&mut cx, shard, nshards, args.seed, thorough);
        if shard == 0 {
            sweep_const(&mut cx);
        }
        if shard == 1 % nshards {
            sweep_options(&mut cx, args.seed, thorough);
        }
        sweep_punct(&mut cx, shard, nshards);
        rep.merge_counts(&cx.counts);
        *total.lock().unwrap() += cx.distinct;
    });
    rep.count("distinct_nontrivial", *total.lock().unwrap());
    rep.count("exhaustive.syntax-flag-words", 1 << N_SYNTAX);
    rep.count("exhaustive.separator-flag-words", 1 << 14);
    args.finish(&rep);
}
