//! Call wrappers: every call into lexical runs under M-panic with the input in a guarded arena.
use crate::guard::{Arena, Place};
use crate::oracle::{Kind, F32, F64};
use crate::report::catch;
use lexical_core::Error;

#[derive(Clone, Debug, PartialEq)]
pub enum R<T> {
    Ok(T, usize),
    Err(Error),
    Panic(String),
}
impl<T: Copy> R<T> {
    pub fn is_ok(&self) -> bool {
        matches!(self, R::Ok(..))
    }
}

pub trait LFloat:
    Copy
    + Send
    + 'static
    + lexical_core::FromLexical
    + lexical_core::FromLexicalWithOptions<Options = lexical_core::ParseFloatOptions>
    + lexical_core::ToLexical
    + lexical_core::ToLexicalWithOptions<Options = lexical_core::WriteFloatOptions>
    + lexical_core::FormattedSize
{
    const KIND: Kind;
    fn bits64(self) -> u64;
    fn from_bits64(b: u64) -> Self;
    fn std_parse(s: &str) -> Option<Self>;
    fn std_fmt_e(self) -> String;
}
impl LFloat for f64 {
    const KIND: Kind = F64;
    fn bits64(self) -> u64 {
        self.to_bits()
    }
    fn from_bits64(b: u64) -> f64 {
        f64::from_bits(b)
    }
    fn std_parse(s: &str) -> Option<f64> {
        s.parse().ok()
    }
    fn std_fmt_e(self) -> String {
        format!("{self:e}")
    }
}
impl LFloat for f32 {
    const KIND: Kind = F32;
    fn bits64(self) -> u64 {
        self.to_bits() as u64
    }
    fn from_bits64(b: u64) -> f32 {
        f32::from_bits(b as u32)
    }
    fn std_parse(s: &str) -> Option<f32> {
        s.parse().ok()
    }
    fn std_fmt_e(self) -> String {
        format!("{self:e}")
    }
}

pub fn place_for(i: u64) -> Place {
    if i & 1 == 0 {
        Place::Tail
    } else {
        Place::Head
    }
}

pub fn parse_complete<T: lexical_core::FromLexical + Copy>(arena: &mut Arena, bytes: &[u8], place: Place) -> R<T> {
    let inp = arena.input(bytes, place);
    match catch(|| lexical_core::parse::<T>(inp)) {
        Ok(Ok(v)) => R::Ok(v, bytes.len()),
        Ok(Err(e)) => R::Err(e),
        Err(p) => R::Panic(p),
    }
}
pub fn parse_partial<T: lexical_core::FromLexical + Copy>(arena: &mut Arena, bytes: &[u8], place: Place) -> R<T> {
    let inp = arena.input(bytes, place);
    match catch(|| lexical_core::parse_partial::<T>(inp)) {
        Ok(Ok((v, n))) => R::Ok(v, n),
        Ok(Err(e)) => R::Err(e),
        Err(p) => R::Panic(p),
    }
}
pub fn parse_complete_opt<T: lexical_core::FromLexicalWithOptions + Copy, const FORMAT: u128>(
    arena: &mut Arena,
    bytes: &[u8],
    place: Place,
    opts: &T::Options,
) -> R<T> {
    let inp = arena.input(bytes, place);
    match catch(|| lexical_core::parse_with_options::<T, FORMAT>(inp, opts)) {
        Ok(Ok(v)) => R::Ok(v, bytes.len()),
        Ok(Err(e)) => R::Err(e),
        Err(p) => R::Panic(p),
    }
}
pub fn parse_partial_opt<T: lexical_core::FromLexicalWithOptions + Copy, const FORMAT: u128>(
    arena: &mut Arena,
    bytes: &[u8],
    place: Place,
    opts: &T::Options,
) -> R<T> {
    let inp = arena.input(bytes, place);
    match catch(|| lexical_core::parse_partial_with_options::<T, FORMAT>(inp, opts)) {
        Ok(Ok((v, n))) => R::Ok(v, n),
        Ok(Err(e)) => R::Err(e),
        Err(p) => R::Panic(p),
    }
}

/// index carried by an error, or -1
pub fn err_index(e: &Error) -> i64 {
    e.index().map(|&i| i as i64).unwrap_or(-1)
}
/// error kind without the index, e.g. "InvalidDigit"
pub fn err_kind(e: &Error) -> String {
    let s = format!("{e:?}");
    s.split('(').next().unwrap().to_string()
}
pub fn show_r_float<T: LFloat>(r: &R<T>) -> String {
    match r {
        R::Ok(v, n) => format!("Ok(bits={:#x},n={})", v.bits64(), n),
        R::Err(e) => format!("Err({e:?})"),
        R::Panic(p) => format!("Panic({p})"),
    }
}

/// write with the default API into an exact-size guarded buffer; returns the bytes written
pub fn write_default<T: lexical_core::ToLexical + Copy>(arena: &mut Arena, v: T, len: usize, place: Place) -> Result<Vec<u8>, String> {
    let buf = arena.output(len, place, 0x5a);
    catch(|| lexical_core::write(v, buf).to_vec())
}
pub fn write_opt<T: lexical_core::ToLexicalWithOptions + Copy, const FORMAT: u128>(
    arena: &mut Arena,
    v: T,
    len: usize,
    place: Place,
    opts: &T::Options,
) -> Result<Vec<u8>, String> {
    let buf = arena.output(len, place, 0x5a);
    catch(|| lexical_core::write_with_options::<T, FORMAT>(v, buf, opts).to_vec())
}

/// Outcome of one monitored write call (M-panic + M-canary + M-shape).
#[derive(Clone, Debug)]
pub struct W {
    /// Ok(bytes of the returned slice) or Err(panic message)
    pub res: Result<Vec<u8>, String>,
    /// the returned slice started at the first byte of the caller's buffer
    pub at_start: bool,
    /// canary bytes next to the buffer (unguarded side) are intact
    pub zone_ok: bool,
    /// bytes of the buffer past the returned length that were modified (scribble inside the slice: allowed, counted)
    pub scribbled: usize,
}
const WTAG: u8 = 0x5a;
/// write with options into an exact-size guarded + canaried buffer of `len` bytes
pub fn write_opt_w<T: lexical_core::ToLexicalWithOptions + Copy, const FORMAT: u128>(arena: &mut Arena, v: T, len: usize, place: Place, opts: &T::Options) -> W {
    arena.arm_zone(len, place, WTAG);
    let buf = arena.output(len, place, WTAG);
    let start = buf.as_ptr() as usize;
    let r = catch(|| {
        let out = lexical_core::write_with_options::<T, FORMAT>(v, buf, opts);
        (out.as_ptr() as usize, out.to_vec())
    });
    finish_w(arena, r, start, len, place)
}
/// default API
pub fn write_default_w<T: lexical_core::ToLexical + Copy>(arena: &mut Arena, v: T, len: usize, place: Place) -> W {
    arena.arm_zone(len, place, WTAG);
    let buf = arena.output(len, place, WTAG);
    let start = buf.as_ptr() as usize;
    let r = catch(|| {
        let out = lexical_core::write(v, buf);
        (out.as_ptr() as usize, out.to_vec())
    });
    finish_w(arena, r, start, len, place)
}
fn finish_w(arena: &mut Arena, r: Result<(usize, Vec<u8>), String>, start: usize, len: usize, place: Place) -> W {
    let zone_ok = arena.zone_intact(len, place, WTAG);
    if !zone_ok {
        // report at once: an out-of-slice write may have corrupted the process, which may not live to write its report
        crate::guard::report_now("CANARY-DAMAGED");
    }
    match r {
        Ok((p, bytes)) => {
            let buf = arena.slice_again(len, place);
            let scribbled = (bytes.len().min(len)..len).filter(|&i| buf[i] != crate::guard::canary(WTAG, i)).count();
            W { res: Ok(bytes), at_start: p == start, zone_ok, scribbled }
        },
        Err(e) => W { res: Err(e), at_start: true, zone_ok, scribbled: 0 },
    }
}

/// The 12 integer types behind one interface (value as sign + u128 magnitude).
pub trait LInt:
    Copy
    + Send
    + PartialEq
    + std::fmt::Debug
    + std::fmt::Display
    + 'static
    + lexical_core::FromLexical
    + lexical_core::FromLexicalWithOptions<Options = lexical_core::ParseIntegerOptions>
    + lexical_core::ToLexical
    + lexical_core::ToLexicalWithOptions<Options = lexical_core::WriteIntegerOptions>
    + lexical_core::FormattedSize
{
    const NAME: &'static str;
    const BITS: u32;
    const SIGNED: bool;
    /// (negative, magnitude)
    fn split(self) -> (bool, u128);
    /// exact construction, None if it does not fit
    fn join(neg: bool, mag: u128) -> Option<Self>;
    /// truncating cast (for random generation)
    fn wrap(x: u128) -> Self;
    fn max_mag(neg: bool) -> u128 {
        if Self::SIGNED {
            if neg {
                1u128 << (Self::BITS - 1)
            } else {
                (1u128 << (Self::BITS - 1)) - 1
            }
        } else if neg {
            0
        } else if Self::BITS == 128 {
            u128::MAX
        } else {
            (1u128 << Self::BITS) - 1
        }
    }
}
macro_rules! lint_unsigned {
    ($($t:ty)*) => {$(
        impl LInt for $t {
            const NAME: &'static str = stringify!($t);
            const BITS: u32 = <$t>::BITS;
            const SIGNED: bool = false;
            fn split(self) -> (bool, u128) { (false, self as u128) }
            fn join(neg: bool, mag: u128) -> Option<Self> {
                if neg && mag != 0 { return None; }
                <$t>::try_from(mag).ok()
            }
            fn wrap(x: u128) -> Self { x as $t }
        }
    )*};
}
macro_rules! lint_signed {
    ($($t:ty)*) => {$(
        impl LInt for $t {
            const NAME: &'static str = stringify!($t);
            const BITS: u32 = <$t>::BITS;
            const SIGNED: bool = true;
            fn split(self) -> (bool, u128) { (self < 0, self.unsigned_abs() as u128) }
            fn join(neg: bool, mag: u128) -> Option<Self> {
                if mag > Self::max_mag(neg) { return None; }
                if neg {
                    // -(mag) computed without overflow
                    Some((mag as $t).wrapping_neg())
                } else {
                    Some(mag as $t)
                }
            }
            fn wrap(x: u128) -> Self { x as $t }
        }
    )*};
}
lint_unsigned! { u8 u16 u32 u64 u128 usize }
lint_signed! { i8 i16 i32 i64 i128 isize }

/// `for_int_types!(mac)` calls `mac!(type)` for each of the 12 integer types
#[macro_export]
macro_rules! for_int_types {
    ($m:ident) => {
        $m!(u8);
        $m!(u16);
        $m!(u32);
        $m!(u64);
        $m!(u128);
        $m!(usize);
        $m!(i8);
        $m!(i16);
        $m!(i32);
        $m!(i64);
        $m!(i128);
        $m!(isize);
    };
}

/// reference numeral: canonical positional representation, digits 0-9A-Z
pub fn ref_numeral(neg: bool, mut mag: u128, radix: u32, plus: bool) -> Vec<u8> {
    let mut d = Vec::new();
    if mag == 0 {
        d.push(b'0');
    }
    while mag != 0 {
        let r = (mag % radix as u128) as u8;
        d.push(if r < 10 { b'0' + r } else { b'A' + r - 10 });
        mag /= radix as u128;
    }
    if neg {
        d.push(b'-');
    } else if plus {
        d.push(b'+');
    }
    d.reverse();
    d
}
