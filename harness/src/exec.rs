//! Call wrappers: every call into lexical runs under M-panic with the input in a guarded arena.
use crate::guard::{Arena, Place};
use crate::oracle::{Kind, F32, F64};
use crate::report::catch;
use lexical_core::Error;

#[derive(Clone, Debug, PartialEq)]
pub enum R<T> {
    Ok(T, usize),
    Err(Error),
    Panic(String),
}
impl<T: Copy> R<T> {
    pub fn is_ok(&self) -> bool {
        matches!(self, R::Ok(..))
    }
}

pub trait LFloat:
    Copy
    + Send
    + 'static
    + lexical_core::FromLexical
    + lexical_core::FromLexicalWithOptions<Options = lexical_core::ParseFloatOptions>
    + lexical_core::ToLexical
    + lexical_core::ToLexicalWithOptions<Options = lexical_core::WriteFloatOptions>
    + lexical_core::FormattedSize
{
    const KIND: Kind;
    fn bits64(self) -> u64;
    fn from_bits64(b: u64) -> Self;
    fn std_parse(s: &str) -> Option<Self>;
    fn std_fmt_e(self) -> String;
}
impl LFloat for f64 {
    const KIND: Kind = F64;
    fn bits64(self) -> u64 {
        self.to_bits()
    }
    fn from_bits64(b: u64) -> f64 {
        f64::from_bits(b)
    }
    fn std_parse(s: &str) -> Option<f64> {
        s.parse().ok()
    }
    fn std_fmt_e(self) -> String {
        format!("{self:e}")
    }
}
impl LFloat for f32 {
    const KIND: Kind = F32;
    fn bits64(self) -> u64 {
        self.to_bits() as u64
    }
    fn from_bits64(b: u64) -> f32 {
        f32::from_bits(b as u32)
    }
    fn std_parse(s: &str) -> Option<f32> {
        s.parse().ok()
    }
    fn std_fmt_e(self) -> String {
        format!("{self:e}")
    }
}

pub fn place_for(i: u64) -> Place {
    if i & 1 == 0 {
        Place::Tail
    } else {
        Place::Head
    }
}

pub fn parse_complete<T: lexical_core::FromLexical + Copy>(arena: &mut Arena, bytes: &[u8], place: Place) -> R<T> {
    let inp = arena.input(bytes, place);
    match catch(|| lexical_core::parse::<T>(inp)) {
        Ok(Ok(v)) => R::Ok(v, bytes.len()),
        Ok(Err(e)) => R::Err(e),
        Err(p) => R::Panic(p),
    }
}
pub fn parse_partial<T: lexical_core::FromLexical + Copy>(arena: &mut Arena, bytes: &[u8], place: Place) -> R<T> {
    let inp = arena.input(bytes, place);
    match catch(|| lexical_core::parse_partial::<T>(inp)) {
        Ok(Ok((v, n))) => R::Ok(v, n),
        Ok(Err(e)) => R::Err(e),
        Err(p) => R::Panic(p),
    }
}
pub fn parse_complete_opt<T: lexical_core::FromLexicalWithOptions + Copy, const FORMAT: u128>(
    arena: &mut Arena,
    bytes: &[u8],
    place: Place,
    opts: &T::Options,
) -> R<T> {
    let inp = arena.input(bytes, place);
    match catch(|| lexical_core::parse_with_options::<T, FORMAT>(inp, opts)) {
        Ok(Ok(v)) => R::Ok(v, bytes.len()),
        Ok(Err(e)) => R::Err(e),
        Err(p) => R::Panic(p),
    }
}
pub fn parse_partial_opt<T: lexical_core::FromLexicalWithOptions + Copy, const FORMAT: u128>(
    arena: &mut Arena,
    bytes: &[u8],
    place: Place,
    opts: &T::Options,
) -> R<T> {
    let inp = arena.input(bytes, place);
    match catch(|| lexical_core::parse_partial_with_options::<T, FORMAT>(inp, opts)) {
        Ok(Ok((v, n))) => R::Ok(v, n),
        Ok(Err(e)) => R::Err(e),
        Err(p) => R::Panic(p),
    }
}

/// index carried by an error, or -1
pub fn err_index(e: &Error) -> i64 {
    e.index().map(|&i| i as i64).unwrap_or(-1)
}
/// error kind without the index, e.g. "InvalidDigit"
pub fn err_kind(e: &Error) -> String {
    let s = format!("{e:?}");
    s.split('(').next().unwrap().to_string()
}
pub fn show_r_float<T: LFloat>(r: &R<T>) -> String {
    match r {
        R::Ok(v, n) => format!("Ok(bits={:#x},n={})", v.bits64(), n),
        R::Err(e) => format!("Err({e:?})"),
        R::Panic(p) => format!("Panic({p})"),
    }
}

/// write with the default API into an exact-size guarded buffer; returns the bytes written
pub fn write_default<T: lexical_core::ToLexical + Copy>(arena: &mut Arena, v: T, len: usize, place: Place) -> Result<Vec<u8>, String> {
    let buf = arena.output(len, place, 0x5a);
    catch(|| lexical_core::write(v, buf).to_vec())
}
pub fn write_opt<T: lexical_core::ToLexicalWithOptions + Copy, const FORMAT: u128>(
    arena: &mut Arena,
    v: T,
    len: usize,
    place: Place,
    opts: &T::Options,
) -> Result<Vec<u8>, String> {
    let buf = arena.output(len, place, 0x5a);
    catch(|| lexical_core::write_with_options::<T, FORMAT>(v, buf, opts).to_vec())
}
