//! Workload generators for the writer-side executors (C08, C09, C14, C15 write side, C17):
//! float bit patterns aimed at the writers' branches, and write-option grids.
use crate::fmttab::Desc;
use crate::oracle::{digit_value, Kind};
use crate::rng::Rng;
use core::num::{NonZeroI32, NonZeroUsize};

/// one point of the write-options space, in plain data (what the oracles read)
#[derive(Clone, Debug)]
pub struct WSpec {
    pub max: Option<usize>,
    pub min: Option<usize>,
    pub pos: Option<i32>,
    pub neg: Option<i32>,
    pub truncate: bool,
    pub trim: bool,
    pub point: u8,
    pub exp: u8,
    pub nan: Option<&'static [u8]>,
    pub inf: Option<&'static [u8]>,
    /// long infinity string of the parser options (the writer has none)
    pub infinity: Option<&'static [u8]>,
}

impl WSpec {
    pub fn plain(point: u8, exp: u8) -> WSpec {
        WSpec { max: None, min: None, pos: None, neg: None, truncate: false, trim: false, point, exp, nan: Some(b"NaN"), inf: Some(b"inf"), infinity: Some(b"infinity") }
    }
    pub fn pos_break(&self) -> i32 {
        self.pos.unwrap_or(9)
    }
    pub fn neg_break(&self) -> i32 {
        self.neg.unwrap_or(-5)
    }
    pub fn build(&self) -> lexical_core::WriteFloatOptions {
        let mut b = lexical_core::WriteFloatOptions::builder()
            .max_significant_digits(self.max.and_then(NonZeroUsize::new))
            .min_significant_digits(self.min.and_then(NonZeroUsize::new))
            .positive_exponent_break(self.pos.and_then(NonZeroI32::new))
            .negative_exponent_break(self.neg.and_then(NonZeroI32::new))
            .trim_floats(self.trim)
            .exponent(self.exp)
            .decimal_point(self.point)
            .nan_string(self.nan)
            .inf_string(self.inf);
        if self.truncate {
            b = b.round_mode(lexical_core::write_float_options::RoundMode::Truncate);
        }
        b.build().expect("valid write options")
    }
    /// parse options that agree with the write options on punctuation and special strings
    pub fn parse_opts(&self) -> lexical_core::ParseFloatOptions {
        lexical_core::ParseFloatOptions::builder()
            .exponent(self.exp)
            .decimal_point(self.point)
            .nan_string(self.nan)
            .inf_string(self.inf)
            .infinity_string(self.infinity)
            .build()
            .expect("valid parse options")
    }
    pub fn name(&self) -> String {
        format!(
            "max={:?} min={:?} pos={:?} neg={:?} {} trim={} point={:?} exp={:?} nan={:?} inf={:?}",
            self.max,
            self.min,
            self.pos,
            self.neg,
            if self.truncate { "truncate" } else { "round" },
            self.trim,
            self.point as char,
            self.exp as char,
            self.nan.map(crate::report::show),
            self.inf.map(crate::report::show)
        )
    }
    /// replay code: max:min:pos:neg:truncate:trim:point:exp:nan:inf:infinity ('-' for None; point/exp as byte values)
    pub fn encode(&self) -> String {
        fn o<T: std::fmt::Display>(x: &Option<T>) -> String {
            x.as_ref().map(|v| v.to_string()).unwrap_or_else(|| "-".into())
        }
        let st = |x: Option<&'static [u8]>| x.map(|b| String::from_utf8_lossy(b).to_string()).unwrap_or_else(|| "-".into());
        format!("{}:{}:{}:{}:{}:{}:{}:{}:{}:{}:{}", o(&self.max), o(&self.min), o(&self.pos), o(&self.neg), self.truncate as u8, self.trim as u8, self.point, self.exp, st(self.nan), st(self.inf), st(self.infinity))
    }
    pub fn decode(s: &str) -> WSpec {
        let f: Vec<&str> = s.split(':').collect();
        let opt = |x: &str| if x == "-" { None } else { Some(x.to_string()) };
        let lk = |x: Option<String>| -> Option<&'static [u8]> { x.map(|s| leak(s.into_bytes())) };
        WSpec {
            max: opt(f[0]).map(|x| x.parse().unwrap()),
            min: opt(f[1]).map(|x| x.parse().unwrap()),
            pos: opt(f[2]).map(|x| x.parse().unwrap()),
            neg: opt(f[3]).map(|x| x.parse().unwrap()),
            truncate: f[4] == "1",
            trim: f[5] == "1",
            point: f[6].parse().unwrap(),
            exp: f[7].parse().unwrap(),
            nan: lk(opt(f[8])),
            inf: lk(opt(f[9])),
            infinity: lk(opt(f[10])),
        }
    }
    /// is this the default behaviour apart from punctuation/special strings?
    pub fn is_plain(&self) -> bool {
        self.max.is_none() && self.min.is_none() && self.pos.is_none() && self.neg.is_none() && !self.truncate && !self.trim
    }
}

/// punctuation valid for the format: not a digit of any radix of the format, not a sign, distinct from the
/// format's own characters.  variant 0: the conventional characters; otherwise seeded.
pub fn punct_for(d: &Desc, variant: u32, rng: &mut Rng) -> (u8, u8) {
    let maxr = (d.radix as u32).max(d.eradix()).max(d.ebase());
    let low = |c: u8| c.to_ascii_lowercase();
    let ok = |c: u8, taken: u8| digit_value(c) >= maxr && c != b'+' && c != b'-' && c != 0 && c < 0x80 && c != taken && c != d.sep && (d.prefix == 0 || low(c) != low(d.prefix)) && (d.suffix == 0 || low(c) != low(d.suffix));
    if variant == 0 {
        let e = if ok(b'e', 0) {
            b'e'
        } else if ok(b'p', 0) && d.ebase() == 2 {
            b'p'
        } else {
            b'^'
        };
        return (b'.', e);
    }
    let points = [b',', b';', b' ', b'/', b'.', b':', b'!'];
    let exps = [b'^', b'p', b'P', b'@', b'e', b'E', b'~', b'z', b'Z', b'*'];
    let mut pt = b'.';
    for _ in 0..20 {
        let c = *rng.pick(&points);
        if ok(c, 0) {
            pt = c;
            break;
        }
    }
    let mut ex = b'^';
    for _ in 0..20 {
        let c = *rng.pick(&exps);
        if ok(c, pt) {
            ex = c;
            break;
        }
    }
    (pt, ex)
}

fn leak(v: Vec<u8>) -> &'static [u8] {
    Box::leak(v.into_boxed_slice())
}

/// seeded special strings (valid: letters only, first letter n/N resp. i/I, 1..=50 bytes)
pub fn special_strings(rng: &mut Rng, variant: u32) -> (Option<&'static [u8]>, Option<&'static [u8]>, Option<&'static [u8]>) {
    let letters = b"abcdefghijklmnopqrstuvwxyzABCDEFGHIJKLMNOPQRSTUVWXYZ";
    let mut mk = |first: &[u8], len: usize| -> Vec<u8> {
        let mut s = vec![*rng.pick(first)];
        for _ in 1..len {
            s.push(*rng.pick(letters));
        }
        s
    };
    match variant {
        0 => (Some(b"NaN"), Some(b"inf"), Some(b"infinity")),
        1 => {
            let nan = mk(b"nN", 3);
            let inf = mk(b"iI", 4);
            let mut infinity = inf.clone();
            infinity.extend_from_slice(b"nity");
            (Some(leak(nan)), Some(leak(inf)), Some(leak(infinity)))
        },
        2 => {
            // extreme lengths: 1 and 50
            let nan = mk(b"nN", 50);
            let inf = mk(b"iI", 1);
            let infinity = mk(b"iI", 50);
            (Some(leak(nan)), Some(leak(inf)), Some(leak(infinity)))
        },
        3 => (None, Some(b"Inf"), Some(b"Infinity")),
        _ => (Some(b"nan"), None, None),
    }
}

/// |break| values kept below this so that `buffer_size_const` stays within the arena
pub const MAX_BREAK: i32 = 1300;
pub const MAX_MIN_DIGITS: usize = 1200;

/// a seeded sample of option points; the first entries are fixed informative corners
pub fn option_grid(rng: &mut Rng, point: u8, exp: u8, n: usize) -> Vec<WSpec> {
    let base = WSpec::plain(point, exp);
    let mut v = Vec::new();
    let mut push = |f: &dyn Fn(&mut WSpec)| {
        let mut s = base.clone();
        f(&mut s);
        v.push(s);
    };
    // fixed corners
    push(&|_| {});
    push(&|s| s.trim = true);
    push(&|s| {
        s.pos = Some(1);
        s.neg = Some(-1);
    });
    push(&|s| {
        s.pos = Some(MAX_BREAK);
        s.neg = Some(-MAX_BREAK);
    });
    for m in [1usize, 2, 3, 5, 9, 16, 17] {
        push(&|s| s.max = Some(m));
        push(&|s| {
            s.max = Some(m);
            s.truncate = true;
        });
    }
    for m in [1usize, 2, 5, 18, 30, 64, 300] {
        push(&|s| s.min = Some(m));
    }
    push(&|s| {
        s.max = Some(8);
        s.min = Some(3);
        s.trim = true;
    });
    push(&|s| {
        s.max = Some(4);
        s.min = Some(4);
    });
    push(&|s| {
        s.max = Some(1);
        s.pos = Some(MAX_BREAK);
        s.neg = Some(-MAX_BREAK);
    });
    push(&|s| {
        s.min = Some(MAX_MIN_DIGITS);
        s.pos = Some(400);
        s.neg = Some(-400);
    });
    let maxes = [1usize, 1, 2, 3, 4, 5, 6, 7, 8, 9, 10, 12, 14, 15, 16, 17, 18, 19, 20, 24, 28, 29, 40, 63, 64, 65, 100];
    let mins = [1usize, 2, 3, 4, 5, 8, 10, 16, 17, 18, 20, 27, 28, 29, 40, 63, 64, 65, 100, 300, 767, 1075];
    let poss = [1i32, 2, 3, 4, 5, 8, 9, 10, 12, 13, 14, 15, 16, 17, 20, 21, 22, 30, 38, 39, 52, 53, 63, 64, 100, 300, 308, 309, 400, 1023, 1024, 1100];
    let negs = [-1i32, -2, -3, -4, -5, -6, -7, -10, -12, -13, -14, -20, -37, -38, -45, -46, -100, -300, -307, -308, -323, -324, -325, -400, -1022, -1023, -1074, -1075, -1100];
    while v.len() < n {
        let mut s = base.clone();
        if rng.chance(3, 5) {
            s.max = Some(*rng.pick(&maxes));
        }
        if rng.chance(2, 5) {
            s.min = Some(*rng.pick(&mins));
        }
        if rng.chance(3, 5) {
            s.pos = Some(*rng.pick(&poss));
        }
        if rng.chance(3, 5) {
            s.neg = Some(*rng.pick(&negs));
        }
        // the options builder requires min <= max
        if let (Some(a), Some(b)) = (s.max, s.min) {
            if b > a {
                s.max = Some(b);
                s.min = Some(a);
            }
        }
        s.truncate = rng.chance(1, 3);
        s.trim = rng.chance(1, 3);
        v.push(s);
    }
    v
}

fn fbits(kind: Kind, x: f64) -> u64 {
    if kind.mant_bits == 52 {
        x.to_bits()
    } else {
        (x as f32).to_bits() as u64
    }
}

/// float bit patterns aimed at the writers: zeros, extremes, every few binades, values at the exponent
/// break points +- 1 ulp, digit patterns that carry or tie when truncated (in `radix`), integers, random.
/// Positive patterns only; the caller adds signs.
pub fn float_values(kind: Kind, radix: u32, rng: &mut Rng, nrand: usize, dense: bool) -> Vec<u64> {
    let mut v: Vec<u64> = Vec::new();
    let inf = kind.inf_bits();
    let hidden = 1u64 << kind.mant_bits;
    v.extend_from_slice(&[0, 1, 2, 3, hidden - 1, hidden, hidden + 1, inf - 1, inf - 2]);
    // binades
    let nexp = (1u64 << kind.exp_bits) - 1;
    let step = if dense { 1 } else if kind.mant_bits == 52 { 37 } else { 5 };
    let mut e = 0;
    while e < nexp {
        let b = e << kind.mant_bits;
        v.push(b);
        v.push(b | (hidden - 1));
        v.push(b | (rng.next_u64() & (hidden - 1)));
        if e > 0 {
            v.push(b - 1);
        }
        e += step;
    }
    // powers of the radix (break points) +- 1 ulp and carry/tie digit patterns
    let r = radix as f64;
    let kmax = ((if kind.mant_bits == 52 { 1080.0 } else { 150.0 }) / r.log2()) as i32;
    let mut ks: Vec<i32> = (-12..=24).collect();
    for k in [kmax, kmax - 1, -kmax, -kmax + 1, 300, -300, 38, -38, 45, -45, 100, -100, 308, -308, 323, -323] {
        if k.abs() <= kmax + 1 {
            ks.push(k);
        }
    }
    for _ in 0..(if dense { 60 } else { 12 }) {
        ks.push(rng.range(-(kmax as i64), kmax as i64) as i32);
    }
    for &k in &ks {
        let p = r.powi(k);
        // digit patterns scaled to r^k: (r^n - 1)/r^n (all max digits), ...5000 ties, ...4999, ...5001
        let half = r / 2.0;
        let mut pats: Vec<f64> = vec![1.0, r - 1.0, 1.0 + 1.0 / r, 1.0 + half / r, 1.0 + half / (r * r), 2.0 + half / r, (r - 1.0) + (r - 1.0) / r, (r - 1.0) + half / r];
        for n in [1, 2, 3, 5, 8, 15, 16, 17] {
            let rn = r.powi(n);
            pats.push((rn - 1.0) / rn * r); // (r-1).(r-1)(r-1)... n digits
            pats.push((rn - 1.0) / rn * r + half / rn / r); // followed by a half digit
            pats.push(1.0 + half / rn); // 1.000..h
            pats.push(1.0 + (half + 1.0) / rn);
            pats.push(1.0 + (half - 1.0) / rn + (r - 1.0) / rn / r);
            pats.push(1.0 + 1.0 / rn + half / rn / r); // odd last kept digit then tie
            pats.push(1.0 + 2.0 / rn + half / rn / r); // even last kept digit then tie
        }
        let all = k.abs() <= 2 || dense;
        let keep = rng.below(8);
        for (qi, q) in pats.into_iter().enumerate() {
            if !all && (qi as u64 + k.unsigned_abs() as u64) % 8 != keep {
                continue;
            }
            let x = q * p;
            if x.is_finite() && x > 0.0 {
                let b = fbits(kind, x);
                if b > 1 && b < inf - 1 {
                    v.push(b);
                    v.push(b + 1);
                    v.push(b - 1);
                }
            }
        }
    }
    // integers
    for i in 0..(if dense { 2000u64 } else { 130 }) {
        v.push(fbits(kind, i as f64));
    }
    for _ in 0..nrand / 4 {
        let x = rng.next_u64() >> (63 - kind.mant_bits) >> rng.below(kind.mant_bits as u64 + 1);
        v.push(fbits(kind, x as f64));
    }
    // short decimals (few significant digits in radix 10 are long in other radices and vice versa)
    for _ in 0..nrand / 4 {
        let d = rng.below(100000) as f64;
        let k = rng.range(-30, 30) as i32;
        let x = d * 10f64.powi(k);
        let b = fbits(kind, x);
        if b < inf {
            v.push(b);
        }
    }
    for _ in 0..nrand / 2 {
        v.push(rng.next_u64() % inf);
    }
    v.retain(|&b| b < inf);
    v
}

/// NaNs and infinities (with signs / payloads)
pub fn special_values(kind: Kind) -> Vec<u64> {
    let inf = kind.inf_bits();
    let s = kind.sign_bit();
    let quiet = 1u64 << (kind.mant_bits - 1);
    vec![inf, inf | s, inf | quiet, inf | quiet | s, inf | 1, inf | 1 | s, inf | quiet | 12345, (inf | s) + (quiet - 1)]
}
