#!/usr/bin/env python3
"""Regenerate /verif/MANIFEST.json from vlib/plans.py (PLANS, META) so the two never drift."""
import json
import os
import sys

ROOT = os.path.dirname(os.path.dirname(os.path.abspath(__file__)))
sys.path.insert(0, os.path.join(ROOT, "vlib"))
import plans  # noqa: E402

props = [json.loads(l) for l in open(os.path.join(ROOT, "properties.jsonl"))]
hooks_commits = getattr(plans, "HOOK_COMMITS", [])
checks = []
na = []
for p in props:
    pid = p["id"]
    if pid in plans.PLANS:
        m = plans.META[pid]
        checks.append(
            {
                "property_id": pid,
                "quick_cmd": f"./check {pid} --tier quick",
                "thorough_cmd": f"./check {pid} --tier thorough",
                "evidence_file": f"evidence/{pid}.json",
                "replay_cmd_template": "./check --replay {path}",
                "engine": "vharness",
                "level_claimed": {
                    "category": "exploration",
                    "text": m.get("level_text", "Held on the executions observed: the real library is run on a seeded, boundary-targeted workload under the monitors and every call/return event is judged by an independent oracle."),
                    "design_ref": f"DESIGN.md section 4, {pid}",
                },
                "level_note": m.get("level_note", "Trusted base: the harness oracles (self-tested on every run), rustc/cargo, the kernel's page protection. Sampled unless the evidence says exhaustive."),
                "technique": m.get("technique", "runtime monitoring: oracle over call/return events of the real code under panic/guard-page monitors"),
            }
        )
    else:
        na.append({"property_id": pid, "reason": getattr(plans, "NOT_APPLICABLE", {}).get(pid, "check not built yet (work in progress); runtime monitoring does apply")})
man = {
    "version": 1,
    "setup_cmd": "./check --setup",
    "hooks": {
        "guard": "--cfg lexical_verif",
        "enable": "RUSTFLAGS='--cfg lexical_verif' (set by ./check for every harness build of /repo)",
        "baseline_off_cmd": "cd /repo && cargo nextest run --workspace --no-fail-fast --offline",
        "source_commits": hooks_commits,
        "add_only": True,
    },
    "engines": [
        {
            "name": "vharness",
            "path": "harness/",
            "serves_properties": sorted(plans.PLANS),
            "kind_free_text": "Rust executor linked against /repo's crates (rebuilt by every check, per cargo-feature configuration and profile): runs the real API on seeded hostile workloads under panic / guard-page / canary monitors (plus ASan, Miri, memcheck runs) and judges every call/return event with exact-arithmetic and reference-model oracles; ./check (python) builds, runs, merges logs, applies known_findings.json, writes evidence and replay files",
        }
    ],
    "checks": checks,
    "not_applicable": na,
    "notes": "Verdicts are three-valued: exit 0 held-on-observed (KNOWN-FINDING lines allowed), exit 1 VIOLATION with replay file, exit 3 INCONCLUSIVE (build/self-test/watchdog/harness failure - never reported as a violation).",
}
json.dump(man, open(os.path.join(ROOT, "MANIFEST.json"), "w"), indent=1)
print(f"MANIFEST.json: {len(checks)} checks, {len(na)} not claimed")
