"""Per-property execution plans: which harness binaries run under which build configuration/profile."""

PX_RULE = "formats = compile-time sample (seeded by VERIF_SEED at build time): syntax set (STANDARD, each of the 18 syntax flags alone, pairs, seeded combinations; decimal, binary/octal/hex with base prefix and suffix, radix 3, C hex floats), separator set (all 15 I/L/T/C combinations uniformly, one component only, seeded mixed triples; separators _ , '; special flag), 64+ prebuilt language formats decoded through the getters, radix-only formats for builds without `format`; 3 option variants per format (default punctuation, seeded custom decimal point / exponent character / nan-inf-infinity strings, specials disabled). inputs per (format, options): ALL strings of length <= 4 (3 for custom options; thorough 5) over {signs, 0, 1, top digit both cases, point, exponent both cases, separator, prefix/suffix both cases, junk}, 12k (thorough 120k) shape-directed random literals with separators sprinkled at leading/internal/trailing/consecutive positions, special-string neighbourhoods (prefixes, case flips, one-byte extensions, separators inside), 7..800-digit components, arbitrary byte strings, 700..16384-byte inputs; f64 + i64 (+ f32, u8 on every 4th format), complete and partial; plus the default API for all 14 types on every 1-2 byte string, byte splices into 70 seeds, 200k random strings and 16 KiB inputs. Every slice is flush against a PROT_NONE guard page (leading or trailing, alternating)."


def run(config, profile, bin, args=(), **kw):
    d = {"config": config, "profile": profile, "bin": bin, "args": list(args)}
    d.update(kw)
    return d


def c01(tier, seed):
    cfgs = ["d", "c", "rf", "crf"] if tier == "quick" else ["d", "c", "p", "r", "f", "rf", "crf", "nd", "nc", "ncrf"]
    runs = [run(c, "rel", "c01") for c in cfgs]
    runs += [run(c, "dbg", "c01", ["small=40"], tag="small") for c in (["d", "c"] if tier == "quick" else cfgs)]
    return runs


def c02(tier, seed):
    cfgs = ["d", "c", "rf"] if tier == "quick" else ["d", "c", "p", "r", "rf", "crf", "nd"]
    runs = [run(c, "rel", "c02") for c in cfgs]
    runs += [run("d", "dbg", "c02", ["f32stride=4001", "nrand=200000", "perbinade=4"], tag="small")]
    return runs


def c03(tier, seed):
    cfgs = ["d", "c", "p", "r", "crf"] if tier == "quick" else ["d", "c", "p", "r", "f", "rf", "cr", "crf", "nd"]
    runs = [run(c, "rel", "c03") for c in cfgs]
    runs += [run(c, "dbg", "c03", ["percount=60", "u32stride=4001"], tag="dbg") for c in (["r", "crf"] if tier == "quick" else cfgs)]
    return runs


def c04(tier, seed):
    cfgs = ["d", "c", "r", "rf"] if tier == "quick" else ["d", "c", "p", "r", "f", "rf", "cr", "crf", "nd"]
    runs = [run(c, "rel", "c04") for c in cfgs]
    runs += [run(c, "dbg", "c04", tag="dbg") for c in (["d", "rf"] if tier == "quick" else cfgs)]
    return runs


def c05(tier, seed):
    cfgs = ["p", "r", "crf"] if tier == "quick" else ["p", "r", "rf", "cr", "crf", "cp", "nr"]
    runs = [run(c, "rel", "c05") for c in cfgs]
    runs += [run(c, "dbg", "c05", ["small=1"], tag="small") for c in (["r"] if tier == "quick" else ["p", "r", "crf"])]
    return runs


def c06(tier, seed):
    cfgs = ["p", "r", "crf"] if tier == "quick" else ["p", "r", "rf", "cp", "crf", "np"]
    runs = [run(c, "rel", "c06", ["prop=C06"], tag="C06") for c in cfgs]
    runs += [run(c, "dbg", "c06", ["prop=C06", "small=1"], tag="C06small") for c in (["p"] if tier == "quick" else ["p", "r", "crf"])]
    return runs


def c07(tier, seed):
    cfgs = ["r", "crf", "nr"] if tier == "quick" else ["r", "rf", "cr", "crf", "nr", "ncrf"]
    runs = [run(c, "rel", "c06", ["prop=C07"], tag="C07") for c in cfgs]
    runs += [run(c, "dbg", "c06", ["prop=C07", "small=1"], tag="C07small") for c in (["r"] if tier == "quick" else ["r", "crf", "nr"])]
    return runs


def px_runs(tier, prop, with_invalid=False, with_c10=True):
    """format-table executors shared by C10, C11, C12, C13, C15, C18 (prop filter)."""
    a = ["prop=" + prop]
    runs = []
    rf_bins = ["px_s0", "px_s1", "px_p0", "px_p1", "px_b0"]
    if tier == "thorough":
        rf_bins += ["px_s2", "px_s3", "px_p2", "px_p3", "px_b1", "px_b2"]
    if with_invalid:
        rf_bins.append("px_i0")
    for b in rf_bins:
        runs.append(run("rf", "rel", b, a, tag=prop))
    for b in ["px_s0", "px_p0"]:
        runs.append(run("crf", "rel", b, a, tag=prop))
        runs.append(run("rf", "dbg", b, a + ["nfmt=16"], tag=prop + "dbg"))
    if tier == "thorough":
        for b in ["px_s0", "px_p0"]:
            runs.append(run("f", "rel", b, a, tag=prop))
            runs.append(run("cf", "rel", b, a, tag=prop))
    for c in ["d", "c"] + (["p", "r", "nd"] if tier == "thorough" else []):
        runs.append(run(c, "rel", "px_std", a + ["nfmt=24"], tag=prop))
        if with_c10:
            runs.append(run(c, "rel", "c10", a, tag=prop))
    if with_c10:
        runs.append(run("d", "dbg", "c10", a, tag=prop + "dbg"))
        runs.append(run("rf", "rel", "c10", a, tag=prop))
    return runs


def c10(tier, seed):
    return px_runs(tier, "C10")


def c11(tier, seed):
    return px_runs(tier, "C11")


def c12(tier, seed):
    return px_runs(tier, "C12", with_c10=False)


def c13(tier, seed):
    return [r for r in px_runs(tier, "C13", with_c10=False) if r["bin"] not in ("px_std",) and not r["bin"].startswith("px_s")]


def c15(tier, seed):
    return px_runs(tier, "C15", with_c10=False)


def c19(tier, seed):
    cfgs = ["d", "c", "r", "crf"] if tier == "quick" else ["d", "c", "p", "r", "rf", "crf", "nd", "nc"]
    runs = [run(c, "rel", "c01", ["lossy=1"], tag="lossy") for c in cfgs]
    runs += [run(c, "rel", "c05", ["lossy=1"], tag="lossy") for c in cfgs if c.strip("n") not in ("d", "c", "f", "cf")]
    # accept/reject/count/error equality of lossy and exact parsing on hostile inputs (format-table executor)
    runs += [run("rf", "rel", b, ["prop=C19"], tag="C19") for b in ("px_s0", "px_p0")]
    runs += [run("d", "rel", "px_std", ["prop=C19", "nfmt=24"], tag="C19")]
    return runs


PLANS = {
    "C01": c01,
    "C05": c05,
    "C10": c10,
    "C11": c11,
    "C12": c12,
    "C13": c13,
    "C15": c15,
    "C06": c06,
    "C07": c07,
    "C19": c19,
    "C04": c04,
    "C03": c03,
    "C02": c02,
}

META = {
    "C01": {
        "rule": "cases = decimal literals rendered (random point position, zeros, sign, exponent spelling) from: the n-digit "
        "neighbours (n around 17..21, 9, 40+) of the halfway point above >=5 floats of EVERY binade of f64 and f32 incl. "
        "0/min-subnormal and MAX/overflow, exact ties with far-away sticky digits, fast-path limits, zero runs to 2000+, exponent sweep "
        "beyond the finite range, exponents beyond i32/i64/u128, random 1..1500 digit strings; each judged for 4 entry points by the "
        "exact big-integer oracle. non-trivial = distinct inputs that are in a halfway/tie/limit/extreme family, or have > 19 digits, "
        "or whose result is inf/zero/subnormal/first binade.",
        "assumptions": [
            "oracle: /verif/harness/src/{big,oracle}.rs (self-tested against u128 arithmetic, hardware division and core::str::parse on every run)",
            "errors in a power table below 2^-61 relative only flip inputs closer to a halfway point than the 19-21 digit neighbours generated here",
            "a clean Miri/guard-page run means no UB observed on these executions only",
        ],
    },
    "C02": {
        "rule": "floats = f32 bit patterns on a seeded stride (quick: every 61st; thorough: all 2^32, exhaustive), every f64/f32 binade x "
        "{0, all-ones, 1, single bits, low patterns, random} mantissas with both signs, the neighbours of every short decimal halfway point "
        "(interval-endpoint class), integers < 200000, powers of ten +-3 ulp, integer-valued doubles in [2^53,2^77), few-bit mantissas, "
        "d*10^q, uniform random bits. Judged: round trip (core parse as filter; exact oracle on every 16th/64th case and on every "
        "disagreement), sign of zero, shortest+closest (core {:e} as a witness generator whose witness is verified exactly; plus a "
        "core-independent exact check that no (n-1)-digit decimal round-trips and the output is the nearer n-digit decimal, on the sample), "
        "compact: <= 17/9 digits. distinct_nontrivial = number of floats that went through the exact-arithmetic round-trip check.",
        "assumptions": [
            "core::fmt {:e} and core parse are used only as filters/witness generators; every violation is confirmed by exact arithmetic",
            "an exact tie between two equally short, equally close outputs is accepted either way",
            "f64 is sampled (2^64 cannot be enumerated)",
        ],
    },
    "C03": {
        "rule": "values = ALL u8/i8/u16/i16 in every radix of the configuration (exhaustive); for wider types per radix: r^k+-{0,1,2}, 2^k+-1, "
        "MIN/MAX, per digit count k a seeded sample of values with exactly k digits plus digit patterns with zero runs / all-max digits "
        "(chunk boundaries of the u64/u128 splitters), both signs; u32 decimal on a seeded stride (thorough: all 2^32) with widened 19/29-digit "
        "companions. Judged: bytes == reference numeral (repeated u128 division), decimal == Display, '+' only with required_mantissa_sign, "
        "returned slice pointer == buffer start, buffer = documented FORMATTED_SIZE flush against a guard page. "
        "distinct_nontrivial = half the evaluations on types wider than 16 bits (edge lists may repeat values).",
        "assumptions": ["reference numeral: u128 division in the harness", "core Display for the decimal comparison"],
    },
    "C04": {
        "rule": "inputs per (type, radix): ALL strings of length <= 4 (thorough 5) over {+,-,0,1,highest digit in both cases, first invalid "
        "letter,_,0x00,0x2F,0x3A,0x80,0xFF}; numerals of MAX/MIN +-{0,1,2}, limit*radix, all-max-digit and 1000.. strings of every length up to "
        "maxlen+2, random numerals, each with every sign, 0/1/3/40 leading zeros, junk suffix, truncation, one-byte substitution; mixed case; "
        "4..25-byte digit windows with every non-digit byte value (0x00-0xFF) at every position (SWAR lanes); 100-4096 leading zeros. "
        "x 12 types x every radix of the configuration x {parse, parse_partial} x no_multi_digit {on, off} (+ default API for radix 10), "
        "release and debug-assertion builds. Judged by a left-to-right wide-arithmetic reference scanner: value, consumed count, error kind "
        "AND index must match. distinct_nontrivial = distinct (type, radix, input) whose expected result is an error or a value within "
        "radix^2 of the type limit.",
        "assumptions": [
            "a partial parse that meets a non-digit before any digit may return Ok((0, n<=sign length)) or Empty/InvalidDigit (left open by the statement; C11 judges it)",
        ],
    },
    "C05": {
        "rule": "formats = all 35 same-base radices (exponent digits in the radix) + decimal/other exponent-digit radices for 2,3,12,16,36 + "
        "the mixed pairs 4/2, 8/2, 16/2, 32/2, 16/4 (exponent radix 10, 16, 4, 2); per format the C01 generator in that radix: n-digit "
        "neighbours of the halfway point above floats of every (quick: every 2nd f64) binade incl. 0/denormal-min and MAX/overflow, exact "
        "ties with far sticky digits (even radices), non-terminating expansions (odd radices), fast-path limits, zero runs, exponent sweep "
        "beyond the range, exponents beyond i32/i64, random 1..1500 digit strings; complete + partial; judged by the exact oracle reading the "
        "emitted bytes. non-trivial as in C01.",
        "assumptions": ["exponent character '^' (and 'p' for the C hex-float layout 16/2/10)", "oracle as in C01"],
    },
    "C06": {
        "rule": "formats = radix 2,4,8,16,32 with exponent base = radix, the mixed pairs 4/2 8/2 16/2 32/2 16/4 and several exponent-digit "
        "radices (decimal, 16, 4, 2); notation variants: default breaks, breaks +-1 (exponent notation), breaks +-1200 (positional); values: "
        "every binade x {0, all-ones, 1, all-ones-1, random} mantissas, single-bit mantissas across binades (every residue of the binary "
        "exponent modulo bits-per-digit), all single-bit / low-pattern subnormals, radix powers +-1 ulp, integers, random bits, both signs; "
        "f32 and f64. Judged: output re-read by the exact oracle must EQUAL the float (no tolerance), ASCII, upper-case digits valid for "
        "the radix, sign, and lexical's own parser of the same format returns the identical bits. non-trivial = subnormals, top binade, "
        "mantissas with > 20 set bits.",
        "assumptions": ["exponent character '^' ('p' for 16/2/10)", "oracle as in C01"],
    },
    "C07": {
        "rule": "formats = the 29 non-decimal non-power-of-two radices (+ decimal / other exponent-digit radix variants); the C06 value and "
        "notation workload plus r^k, r^k +- 1 ulp, (r^k-1)/r^k carry chains, integers 0..4096 (thorough 65536), random integers below 2^53/2^24. "
        "Judged: well-formed (digits < radix, <= 1 point, <= 1 exponent in the exponent radix, ASCII), accepted in full by lexical's parser "
        "of the same format, exact distance < 2048 (f64) / 256 (f32) ulp by the exact oracle, integral floats below 2^53 / 2^24 exact. "
        "The evidence notes carry the largest distance bucket observed. Includes no-std builds (crate-local libm floor).",
        "assumptions": ["the 2048/256 ulp bound is the property's; the oracle measures it exactly"],
    },
    "C10": {
        "rule": PX_RULE + " Judged: no panic (release and debug-assertion builds), no guard-page hit, partial count <= len, error index <= len.",
        "assumptions": ["a guard page catches out-of-slice access only within one page of the slice; intra-allocation misuse is left to Miri (thorough tier)"],
    },
    "C11": {
        "rule": PX_RULE + " Judged: complete=Ok(v) <=> partial=Ok((v,len)); partial=Ok((v,n)), 0<n<len => complete(bytes[..n])=Ok(v) (NaN by class).",
        "assumptions": [],
    },
    "C12": {
        "rule": PX_RULE + " Judged (separator-free inputs only): a reference recogniser written from the per-flag documentation tables decides "
        "derivable / not derivable / undocumented; derivable => accepted with the exactly rounded value of its digits (exact oracle) or the exact "
        "integer; not derivable => rejected; special strings via the reference matcher.",
        "assumptions": [
            "where the rendered table, the prose and the embedded doc-test disagree (e.g. '1.' under required_integer_digits, empty mantissa without "
            "required_mantissa_digits, prefix/suffix letters that are digits of the radix) either behaviour is accepted (counter c12.unsure)",
            "which error kind is reported is not judged",
        ],
    },
    "C13": {
        "rule": PX_RULE + " Judged: (1) accepted input with separators => same value after deleting them; (2) every separator run of an accepted "
        "input is at a position (leading/internal/trailing, consecutive, per component) the flags enable; (3) inserting 1-3 separators at every "
        "enabled position of accepted separator-free literals => accepted with the same value (complete and partial); (4) separator-free input "
        "=> identical result (value, count, error kind and index) in the format and its separator-free counterpart (both compiled).",
        "assumptions": ["a component made of separators only counts as leading or trailing", "literals with base prefix/suffix letters are not used for insertion (undocumented interplay)"],
    },
    "C15": {
        "rule": PX_RULE + " Judged (parse side): special accepted exactly when, after the sign rules of the format, the rest equals nan/inf/infinity "
        "(case per flag, separators ignored only with special_digit_separator, never with no_special or None strings); no grammatical number yields "
        "NaN; signs preserved. The write side (signed zero, NaN without minus, disabled special panics) is judged by the C08 executor.",
        "assumptions": [],
    },
    "C19": {
        "rule": "the C01 (decimal) and C05 (all radix formats) workloads parsed with lossy(true): must accept with the full count, never NaN, "
        "correct sign, and be the correctly rounded float or one of its two neighbours (exact oracle); zero and infinity results and exact "
        "zero inputs must be unchanged. Accept/reject/count/error equality with lossy(false) on hostile inputs is checked by the C11 executor.",
        "assumptions": [
            "oracle as in C01",
            "'zero and infinities unchanged' is enforced for exact-zero inputs, for values >= 2^(emax+1) and for values <= 1/4 of the smallest "
            "subnormal; inside the rounding interval around the overflow/underflow thresholds either neighbour (MAX/inf, 0/min-subnormal) is "
            "accepted, which is what the one-step clause of the statement allows",
        ],
    },
}


def replay_input(body):
    return ["replay=" + body["case"]["input"]]


def replay_bits(body):
    return ["replay=" + body["case"]["bits"], "type=" + body["case"]["type"]]


def replay_c03(body):
    c = body["case"]
    return [f"replay={c['type']}:{c['radix']}:{c['value']}"]


def replay_c04(body):
    c = body["case"]
    return [f"replay={c['type']}:{c['radix']}:{c['input']}"]


def replay_px(body):
    c = body["case"]
    return ["prop=" + c["property"], "replay=" + c["input"], "type=" + c["type"]] + (["idx=" + str(c["idx"]), "variant=" + str(c.get("variant", 0))] if "idx" in c else [])


def replay_c05(body):
    c = body["case"]
    a = ["replay=" + c["input"], "format=" + c["format"]]
    if c.get("property") == "C19":
        a.append("lossy=1")
    return a


def replay_c06(body):
    c = body["case"]
    return ["replay=" + c["bits"], "type=" + c["type"], "format=" + c["format"], "prop=" + c["property"]]


REPLAY = {"C10": replay_px, "C11": replay_px, "C12": replay_px, "C13": replay_px, "C15": replay_px, "C06": replay_c06, "C07": replay_c06, "C05": replay_c05, "C04": replay_c04, "C01": replay_input, "C02": replay_bits, "C03": replay_c03}
POST = {}
