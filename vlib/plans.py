"""Per-property execution plans: which harness binaries run under which build configuration/profile."""


def run(config, profile, bin, args=(), **kw):
    d = {"config": config, "profile": profile, "bin": bin, "args": list(args)}
    d.update(kw)
    return d


def c01(tier, seed):
    cfgs = ["d", "c", "rf", "crf"] if tier == "quick" else ["d", "c", "p", "r", "f", "rf", "crf", "nd", "nc", "ncrf"]
    runs = [run(c, "rel", "c01") for c in cfgs]
    runs += [run(c, "dbg", "c01", ["small=40"], tag="small") for c in (["d", "c"] if tier == "quick" else cfgs)]
    return runs


def c02(tier, seed):
    cfgs = ["d", "c", "rf"] if tier == "quick" else ["d", "c", "p", "r", "rf", "crf", "nd"]
    runs = [run(c, "rel", "c02") for c in cfgs]
    runs += [run("d", "dbg", "c02", ["f32stride=4001", "nrand=200000", "perbinade=4"], tag="small")]
    return runs


PLANS = {
    "C01": c01,
    "C02": c02,
}

META = {
    "C01": {
        "rule": "cases = decimal literals rendered (random point position, zeros, sign, exponent spelling) from: the n-digit "
        "neighbours (n around 17..21, 9, 40+) of the halfway point above >=5 floats of EVERY binade of f64 and f32 incl. "
        "0/min-subnormal and MAX/overflow, exact ties with far-away sticky digits, fast-path limits, zero runs to 2000+, exponent sweep "
        "beyond the finite range, exponents beyond i32/i64/u128, random 1..1500 digit strings; each judged for 4 entry points by the "
        "exact big-integer oracle. non-trivial = distinct inputs that are in a halfway/tie/limit/extreme family, or have > 19 digits, "
        "or whose result is inf/zero/subnormal/first binade.",
        "assumptions": [
            "oracle: /verif/harness/src/{big,oracle}.rs (self-tested against u128 arithmetic, hardware division and core::str::parse on every run)",
            "errors in a power table below 2^-61 relative only flip inputs closer to a halfway point than the 19-21 digit neighbours generated here",
            "a clean Miri/guard-page run means no UB observed on these executions only",
        ],
    },
    "C02": {
        "rule": "floats = f32 bit patterns on a seeded stride (quick: every 61st; thorough: all 2^32, exhaustive), every f64/f32 binade x "
        "{0, all-ones, 1, single bits, low patterns, random} mantissas with both signs, the neighbours of every short decimal halfway point "
        "(interval-endpoint class), integers < 200000, powers of ten +-3 ulp, integer-valued doubles in [2^53,2^77), few-bit mantissas, "
        "d*10^q, uniform random bits. Judged: round trip (core parse as filter; exact oracle on every 16th/64th case and on every "
        "disagreement), sign of zero, shortest+closest (core {:e} as a witness generator whose witness is verified exactly; plus a "
        "core-independent exact check that no (n-1)-digit decimal round-trips and the output is the nearer n-digit decimal, on the sample), "
        "compact: <= 17/9 digits. distinct_nontrivial = number of floats that went through the exact-arithmetic round-trip check.",
        "assumptions": [
            "core::fmt {:e} and core parse are used only as filters/witness generators; every violation is confirmed by exact arithmetic",
            "an exact tie between two equally short, equally close outputs is accepted either way",
            "f64 is sampled (2^64 cannot be enumerated)",
        ],
    },
}


def replay_input(body):
    return ["replay=" + body["case"]["input"]]


def replay_bits(body):
    return ["replay=" + body["case"]["bits"], "type=" + body["case"]["type"]]


REPLAY = {"C01": replay_input, "C02": replay_bits}
POST = {}
