"""Per-property execution plans: which harness binaries run under which build configuration/profile."""

PX_RULE = "formats = compile-time sample (seeded by VERIF_SEED at build time): syntax set (STANDARD, each of the 18 syntax flags alone, pairs, seeded combinations; decimal, binary/octal/hex with base prefix and suffix, radix 3, C hex floats), separator set (all 15 I/L/T/C combinations uniformly, one component only, seeded mixed triples; separators _ , '; special flag), 64+ prebuilt language formats decoded through the getters, radix-only formats for builds without `format`; 3 option variants per format (default punctuation, seeded custom decimal point / exponent character / nan-inf-infinity strings, specials disabled). inputs per (format, options): ALL strings of length <= 4 (3 for custom options; thorough 5) over {signs, 0, 1, top digit both cases, point, exponent both cases, separator, prefix/suffix both cases, junk}, 12k (thorough 120k) shape-directed random literals with separators sprinkled at leading/internal/trailing/consecutive positions, special-string neighbourhoods (prefixes, case flips, one-byte extensions, separators inside), 7..800-digit components, arbitrary byte strings, 700..16384-byte inputs; f64 + i64 (+ f32, u8 on every 4th format), complete and partial; plus the default API for all 14 types on every 1-2 byte string, byte splices into 70 seeds, 200k random strings and 16 KiB inputs. Every slice is flush against a PROT_NONE guard page (leading or trailing, alternating)."


def run(config, profile, bin, args=(), **kw):
    d = {"config": config, "profile": profile, "bin": bin, "args": list(args)}
    d.update(kw)
    return d


TIER_BOX = ["quick"]


def miri(config, bin, nproc, mshards, seed, args=(), stride=None, tagp="miri"):
    """nproc single-threaded Miri processes, each executing the work of shard i of `mshards` of a `small` workload"""
    stride = stride or max(1, mshards // nproc)
    out = []
    for j in range(nproc):
        i = (j * stride + seed) % mshards
        r = run(config, "miri", bin, list(args) + ["small", f"mshard={i}", f"mshards={mshards}"], tag=f"{tagp}{j}", threads=1, timeout=2400)
        if TIER_BOX[0] == "thorough" and j % 2 == 1:
            # thorough tier: every second process under the Tree Borrows aliasing model instead of Stacked Borrows
            r["miriflags"] = "-Zmiri-tree-borrows"
            r["tag"] += "tb"
        out.append(r)
    return out


def sanitized(config, profile, bin, args=(), tag="", **kw):
    return run(config, profile, bin, list(args), tag=(profile + tag), **kw)


def c01(tier, seed):
    # nc = compact without std: the fast path multiplies by powers computed with the crate-local libm
    cfgs = ["d", "c", "rf", "crf", "nc"] if tier == "quick" else ["d", "c", "p", "r", "f", "rf", "crf", "nd", "nc", "ncrf"]
    runs = [run(c, "rel", "c01") for c in cfgs]
    runs += [run(c, "dbg", "c01", ["small=40"], tag="small") for c in (["d", "c"] if tier == "quick" else cfgs)]
    return runs


def c02(tier, seed):
    cfgs = ["d", "c", "rf"] if tier == "quick" else ["d", "c", "p", "r", "rf", "crf", "nd"]
    runs = [run(c, "rel", "c02") for c in cfgs]
    runs += [run("d", "dbg", "c02", ["f32stride=4001", "nrand=200000", "perbinade=4"], tag="small")]
    return runs


def c03(tier, seed):
    cfgs = ["d", "c", "p", "r", "crf"] if tier == "quick" else ["d", "c", "p", "r", "f", "rf", "cr", "crf", "nd"]
    runs = [run(c, "rel", "c03") for c in cfgs]
    runs += [run(c, "dbg", "c03", ["percount=60", "u32stride=4001"], tag="dbg") for c in (["r", "crf"] if tier == "quick" else cfgs)]
    # the integer writers index unchecked from a separately computed digit count: Miri sees an index that is wrong but
    # still inside the caller's allocation
    runs += miri("d", "c03", 4, 12, seed)
    runs += miri("r", "c03", 4 if tier == "quick" else 16, 420, seed, stride=53)
    if tier == "thorough":
        runs += miri("c", "c03", 4, 12, seed) + [sanitized("r", "asan", "c03", ["percount=60", "u32stride=40001"])]
    return runs


def c04(tier, seed):
    cfgs = ["d", "c", "r", "rf"] if tier == "quick" else ["d", "c", "p", "r", "f", "rf", "cr", "crf", "nd"]
    runs = [run(c, "rel", "c04") for c in cfgs]
    runs += [run(c, "dbg", "c04", tag="dbg") for c in (["d", "rf"] if tier == "quick" else cfgs)]
    # multi-digit on/off equality on the hostile default-API corpus (the c10 executor reports it under C04)
    runs += [run("d", "rel", "c10", ["prop=C04"], tag="C04"), run("c", "rel", "c10", ["prop=C04"], tag="C04")]
    runs += miri("d", "c04", 4, 12, seed)
    runs += miri("r", "c04", 4 if tier == "quick" else 16, 420, seed, stride=53)
    if tier == "thorough":
        runs += [sanitized("rf", "asan", "c04", ["small"])]
    return runs


def c05(tier, seed):
    cfgs = ["p", "r", "crf"] if tier == "quick" else ["p", "r", "rf", "cr", "crf", "cp", "nr"]
    runs = [run(c, "rel", "c05") for c in cfgs]
    runs += [run(c, "dbg", "c05", ["small=1"], tag="small") for c in (["r"] if tier == "quick" else ["p", "r", "crf"])]
    return runs


def c06(tier, seed):
    cfgs = ["p", "r", "crf"] if tier == "quick" else ["p", "r", "rf", "cp", "crf", "np"]
    runs = [run(c, "rel", "c06", ["prop=C06"], tag="C06") for c in cfgs]
    runs += [run(c, "dbg", "c06", ["prop=C06", "small=1"], tag="C06small") for c in (["p"] if tier == "quick" else ["p", "r", "crf"])]
    return runs


def c07(tier, seed):
    cfgs = ["r", "crf", "nr"] if tier == "quick" else ["r", "rf", "cr", "crf", "nr", "ncrf"]
    runs = [run(c, "rel", "c06", ["prop=C07"], tag="C07") for c in cfgs]
    runs += [run(c, "dbg", "c06", ["prop=C07", "small=1"], tag="C07small") for c in (["r"] if tier == "quick" else ["r", "crf", "nr"])]
    return runs


def px_runs(tier, prop, with_invalid=False, with_c10=True):
    """format-table executors shared by C10, C11, C12, C13, C15, C18 (prop filter)."""
    a = ["prop=" + prop]
    runs = []
    rf_bins = ["px_s0", "px_s1", "px_p0", "px_p1", "px_b0"]
    if tier == "thorough":
        rf_bins += ["px_s2", "px_s3", "px_p2", "px_p3", "px_b1", "px_b2"]
    if with_invalid:
        rf_bins.append("px_i0")
    for b in rf_bins:
        runs.append(run("rf", "rel", b, a, tag=prop))
    for b in ["px_s0", "px_p0"]:
        runs.append(run("crf", "rel", b, a, tag=prop))
        runs.append(run("rf", "dbg", b, a + ["nfmt=16"], tag=prop + "dbg"))
    if tier == "thorough":
        for b in ["px_s0", "px_p0"]:
            runs.append(run("f", "rel", b, a, tag=prop))
            runs.append(run("cf", "rel", b, a, tag=prop))
    for c in ["d", "c"] + (["p", "r", "nd"] if tier == "thorough" else []):
        runs.append(run(c, "rel", "px_std", a + ["nfmt=24"], tag=prop))
        if with_c10:
            runs.append(run(c, "rel", "c10", a, tag=prop))
    if with_c10:
        runs.append(run("d", "dbg", "c10", a, tag=prop + "dbg"))
        runs.append(run("rf", "rel", "c10", a, tag=prop))
    if prop == "C10":
        # Miri: the skip iterators, SWAR reads and unchecked slicing of the parsers on exact-size heap inputs
        n = 4 if tier == "quick" else 12
        runs += miri("rf", "px_p0", n, 64, SEED_BOX[0], a, tagp="mirisep")
        runs += miri("rf", "px_s0", n, 64, SEED_BOX[0], a, tagp="mirisyn")
        runs += miri("rf", "px_b0", n, 64, SEED_BOX[0], a, tagp="miripre")
        runs += miri("d", "c10", 4, 16, SEED_BOX[0], a, tagp="miridef")
        if tier == "thorough":
            runs += miri("crf", "px_p0", 8, 64, SEED_BOX[0], a, tagp="miricompact")
            runs.append(sanitized("rf", "asan", "px_p0", a + ["nfmt=32"]))
            runs.append(sanitized("rf", "asan", "px_s0", a + ["nfmt=32"]))
            runs.append(sanitized("d", "asan", "c10", a))
            runs += [run("rf", "vg", "px_p0", a + ["small", f"mshard={i}", "mshards=64"], tag=f"vg{i}", threads=1, timeout=3600) for i in (3, 21, 40, 58)]
    return runs


SEED_BOX = [0]


def c10(tier, seed):
    SEED_BOX[0] = seed
    return px_runs(tier, "C10")


def c11(tier, seed):
    return px_runs(tier, "C11")


def c12(tier, seed):
    # the default-API executor compares STANDARD with Rust's FromStr for all 14 types
    return px_runs(tier, "C12", with_c10=True)


def c13(tier, seed):
    return [r for r in px_runs(tier, "C13", with_c10=False) if r["bin"] not in ("px_std",) and not r["bin"].startswith("px_s")]


def c15(tier, seed):
    # parse side: format-table parse executor; write side (signed zero, NaN without '-', disabled specials): write executor
    w = [r for r in wx_runs(tier, "C15") if r["bin"] in ("wx_w0", "wx_std")]
    return px_runs(tier, "C15", with_c10=False) + w


def c19(tier, seed):
    cfgs = ["d", "c", "r", "crf"] if tier == "quick" else ["d", "c", "p", "r", "rf", "crf", "nd", "nc"]
    runs = [run(c, "rel", "c01", ["lossy=1"], tag="lossy") for c in cfgs]
    runs += [run(c, "rel", "c05", ["lossy=1"], tag="lossy") for c in cfgs if c.strip("n") not in ("d", "c", "f", "cf")]
    # accept/reject/count/error equality of lossy and exact parsing on hostile inputs (format-table executor)
    runs += [run("rf", "rel", b, ["prop=C19"], tag="C19") for b in ("px_s0", "px_p0")]
    runs += [run("d", "rel", "px_std", ["prop=C19", "nfmt=24"], tag="C19")]
    return runs


WX_RULE = ("formats = compile-time sample seeded by VERIF_SEED: STANDARD, each of the 16 write-relevant syntax flags toggled alone (required/forbidden mantissa and exponent signs, "
           "no/required exponent notation, no_exponent_without_fraction, required integer/fraction/exponent/mantissa digits, no_special, case-sensitive special/exponent, leading-zero flags), then seeded "
           "flag combinations over radix flavours (decimal, hex with/without prefix, C hex floats 16/2/10, radix 2/4/8/32 with own or decimal exponent digits, mixed bases 4/2 8/2 32/2 16/4 16/2, "
           "24 generic radices incl. decimal exponent digits; a quarter with digit separators configured), plus lexical's prebuilt language formats (32 per part, all 147 in the thorough tier) decoded through the getters, "
           "and radix-only formats for builds without `format`. Per format 3 punctuation/special-string variants (conventional; seeded decimal point / exponent character / nan-inf strings of 1..50 letters; one special "
           "disabled) x 40 (thorough 160) write-option points (fixed corners: trim, breaks +-1 / +-1300, max 1..17 x {round, truncate}, min 1..300, min==max, min 1200; seeded: max<=100, min<=1075, breaks across the "
           "whole exponent range, round mode, trim) x floats aimed at the writers (zeros, extremes, binades, powers of the radix +-1 ulp, digit patterns that carry / tie / sit one digit above or below a tie in the "
           "format's radix, integers, short decimals, random bits; both signs; NaN/inf with payloads) for f64 (+ f32 on every 2nd format) and integers (all 12 types on every 8th format, i32+u64 otherwise). "
           "Every output buffer is exactly the documented bound, flush against a PROT_NONE guard page (alternating sides) with a 96-byte canary zone on the other side; a sample is re-written into every "
           "interesting shorter length (0, 1, len-1, len, len+1, bound/2, bound-1, random) on both sides. The default API (all 14 types) is driven the same way with every buffer length 0..FORMATTED_SIZE_DECIMAL.")


def wx_runs(tier, prop, seed=0):
    a = ["prop=" + prop]
    runs = []
    bins = ["wx_w0", "wx_w1", "wx_b0"]
    if tier == "thorough":
        bins += ["wx_w2", "wx_w3", "wx_b1", "wx_b2", "wx_b3", "wx_b4"]
    for b in bins:
        runs.append(run("rf", "rel", b, a, tag=prop))
    runs.append(run("crf", "rel", "wx_w0", a, tag=prop))
    runs.append(run("rf", "dbg", "wx_w0", a + ["nfmt=8"], tag=prop + "dbg"))
    if tier == "thorough":
        runs.append(run("crf", "rel", "wx_b0", a, tag=prop))
        runs.append(run("f", "rel", "wx_w0", a, tag=prop))
        runs.append(run("cf", "rel", "wx_w0", a, tag=prop))
        runs.append(run("crf", "dbg", "wx_w1", a + ["nfmt=8"], tag=prop + "dbg"))
    for c in ["d", "c"] + (["p", "r", "nd", "nc", "cr"] if tier == "thorough" else []):
        runs.append(run(c, "rel", "wx_std", a + ["defaultapi"], tag=prop))
    runs.append(run("d", "dbg", "wx_std", a + ["defaultapi", "nfmt=1"], tag=prop + "dbg"))
    if prop in ("C08", "C09", "C17"):
        # integers: every type x every radix of the configuration at the documented bound and at every shorter length
        # `p` = power-of-two WITHOUT radix selects its own cfg branches of the step tables
        for c in ["r", "c", "p"] + (["d", "crf", "nr", "np"] if tier == "thorough" else []):
            runs.append(run(c, "rel", "c09", a, tag=prop))
        runs.append(run("r", "dbg", "c09", a, tag=prop + "dbg"))
    if prop in ("C09", "C17"):
        # exact-size heap buffers under Miri: every writer path incl. lexical::to_string's unchecked UTF-8 conversion
        n = 6 if tier == "quick" else 16
        runs += miri("d", "wx_std", n, 16, seed, a + ["defaultapi", "nfmt=1"])
        runs += miri("rf", "wx_w0", n, 32, seed, a, tagp="mirifmt")
        runs += miri("r", "c09", 4 if tier == "quick" else 16, 420, seed, a, stride=53, tagp="miriint")
        if tier == "thorough":
            runs += miri("crf", "wx_w0", 8, 32, seed, a, tagp="miricompact")
            runs.append(sanitized("rf", "asan", "wx_w0", a + ["nfmt=16"]))
            runs.append(sanitized("crf", "asan", "wx_w1", a + ["nfmt=8"]))
            runs.append(sanitized("d", "asan", "wx_std", a + ["defaultapi"]))
            runs += [run("rf", "vg", "wx_w0", a + ["small", f"mshard={i}", "mshards=32"], tag=f"vg{i}", threads=1, timeout=3600) for i in (1, 9, 17, 25)]
    return runs


def c08(tier, seed):
    return wx_runs(tier, "C08")


def c09(tier, seed):
    return wx_runs(tier, "C09", seed)


def c14(tier, seed):
    return wx_runs(tier, "C14")


def c17(tier, seed):
    return wx_runs(tier, "C17", seed)


def c16(tier, seed):
    cfgs = ["d", "c", "p", "r", "f", "rf", "crf", "nd", "nc"]
    if tier == "thorough":
        # the whole lattice {std} x {compact} x {-, power-of-two, radix} x {format}
        cfgs = []
        for n in ("", "n"):
            for c in ("", "c"):
                for r in ("", "p", "r"):
                    for f in ("", "f"):
                        body = c + r + f
                        cfgs.append(n + (body if body else "d"))
    return [run(c, "rel", "c16") for c in cfgs] + [run("d", "dbg", "c16", tag="dbg"), run("crf", "dbg", "c16", tag="dbg")]


def c18(tier, seed):
    cfgs = ["d", "p", "r", "f", "rf"] if tier == "quick" else ["d", "c", "p", "r", "f", "cf", "pf", "rf", "crf", "nd", "nrf"]
    runs = [run(c, "rel", "c18") for c in cfgs]
    runs += [run("rf", "dbg", "c18", tag="dbg"), run("d", "dbg", "c18", tag="dbg")]
    # parsing with INVALID formats (every entry point must return a configuration error): format-table executor
    runs.append(run("rf", "rel", "px_i0", ["prop=C18"], tag="C18"))
    runs.append(run("rf", "dbg", "px_i0", ["prop=C18"], tag="C18dbg"))
    if tier == "thorough":
        runs.append(run("crf", "rel", "px_i0", ["prop=C18"], tag="C18"))
        runs.append(run("f", "rel", "px_i0", ["prop=C18"], tag="C18"))
    return runs


PLANS = {
    "C18": c18,
    "C16": c16,
    "C08": c08,
    "C09": c09,
    "C14": c14,
    "C17": c17,
    "C01": c01,
    "C05": c05,
    "C10": c10,
    "C11": c11,
    "C12": c12,
    "C13": c13,
    "C15": c15,
    "C06": c06,
    "C07": c07,
    "C19": c19,
    "C04": c04,
    "C03": c03,
    "C02": c02,
}

HOOK_COMMITS = ["37e5a42"]

META = {
    "C01": {
        "required_paths": {
            "c01:noncompact": ["parse.fast", "parse.fast-disguised", "parse.lemire", "parse.moderate-ok", "parse.slow", "parse.digit-comp-positive", "parse.digit-comp-negative", "parse.many-digits"],
            "c01:compact": ["parse.fast", "parse.bellerophon", "parse.slow", "parse.digit-comp-positive", "parse.digit-comp-negative", "parse.many-digits"],
        },
        "rule": "cases = decimal literals rendered (random point position, zeros, sign, exponent spelling) from: the n-digit "
        "neighbours (n around 17..21, 9, 40+) of the halfway point above >=5 floats of EVERY binade of f64 and f32 incl. "
        "0/min-subnormal and MAX/overflow, exact ties with far-away sticky digits, fast-path limits, zero runs to 2000+, exponent sweep "
        "beyond the finite range, exponents beyond i32/i64/u128, random 1..1500 digit strings; each judged for 4 entry points by the "
        "exact big-integer oracle. non-trivial = distinct inputs that are in a halfway/tie/limit/extreme family, or have > 19 digits, "
        "or whose result is inf/zero/subnormal/first binade.",
        "assumptions": [
            "oracle: /verif/harness/src/{big,oracle}.rs (self-tested against u128 arithmetic, hardware division and core::str::parse on every run)",
            "errors in a power table below 2^-61 relative only flip inputs closer to a halfway point than the 19-21 digit neighbours generated here",
            "a clean Miri/guard-page run means no UB observed on these executions only",
        ],
    },
    "C02": {
        "required_paths": {"c02": ["write.decimal", "write.scientific", "write.positional-positive-exponent", "write.positional-negative-exponent"]},
        "rule": "floats = f32 bit patterns on a seeded stride (quick: every 61st; thorough: all 2^32, exhaustive), every f64/f32 binade x "
        "{0, all-ones, 1, single bits, low patterns, random} mantissas with both signs, the neighbours of every short decimal halfway point "
        "(interval-endpoint class), integers < 200000, powers of ten +-3 ulp, integer-valued doubles in [2^53,2^77), few-bit mantissas, "
        "d*10^q, uniform random bits. Judged: round trip (core parse as filter; exact oracle on every 16th/64th case and on every "
        "disagreement), sign of zero, shortest+closest (core {:e} as a witness generator whose witness is verified exactly; plus a "
        "core-independent exact check that no (n-1)-digit decimal round-trips and the output is the nearer n-digit decimal, on the sample), "
        "compact: <= 17/9 digits. distinct_nontrivial = number of floats that went through the exact-arithmetic round-trip check.",
        "assumptions": [
            "core::fmt {:e} and core parse are used only as filters/witness generators; every violation is confirmed by exact arithmetic",
            "an exact tie between two equally short, equally close outputs is accepted either way",
            "f64 is sampled (2^64 cannot be enumerated)",
        ],
    },
    "C03": {
        "rule": "values = ALL u8/i8/u16/i16 in every radix of the configuration (exhaustive); for wider types per radix: r^k+-{0,1,2}, 2^k+-1, "
        "MIN/MAX, per digit count k a seeded sample of values with exactly k digits plus digit patterns with zero runs / all-max digits "
        "(chunk boundaries of the u64/u128 splitters), both signs; u32 decimal on a seeded stride (thorough: all 2^32) with widened 19/29-digit "
        "companions. Judged: bytes == reference numeral (repeated u128 division), decimal == Display, '+' only with required_mantissa_sign, "
        "returned slice pointer == buffer start, buffer = documented FORMATTED_SIZE flush against a guard page. "
        "distinct_nontrivial = half the evaluations on types wider than 16 bits (edge lists may repeat values).",
        "assumptions": ["reference numeral: u128 division in the harness", "core Display for the decimal comparison"],
    },
    "C04": {
        "rule": "inputs per (type, radix): ALL strings of length <= 4 (thorough 5) over {+,-,0,1,highest digit in both cases, first invalid "
        "letter,_,0x00,0x2F,0x3A,0x80,0xFF}; numerals of MAX/MIN +-{0,1,2}, limit*radix, all-max-digit and 1000.. strings of every length up to "
        "maxlen+2, random numerals, each with every sign, 0/1/3/40 leading zeros, junk suffix, truncation, one-byte substitution; mixed case; "
        "4..25-byte digit windows with every non-digit byte value (0x00-0xFF) at every position (SWAR lanes); 100-4096 leading zeros. "
        "x 12 types x every radix of the configuration x {parse, parse_partial} x no_multi_digit {on, off} (+ default API for radix 10), "
        "release and debug-assertion builds. Judged by a left-to-right wide-arithmetic reference scanner: value, consumed count, error kind "
        "AND index must match. distinct_nontrivial = distinct (type, radix, input) whose expected result is an error or a value within "
        "radix^2 of the type limit.",
        "assumptions": [
            "a partial parse that meets a non-digit before any digit may return Ok((0, n<=sign length)) or Empty/InvalidDigit (left open by the statement; C11 judges it)",
        ],
    },
    "C05": {
        "required_paths": {
            "c05:pow2": ["parse.binary", "parse.slow-binary", "parse.many-digits"],
            "c05:radix": ["parse.bellerophon", "parse.slow", "parse.digit-comp-positive", "parse.digit-comp-negative", "parse.byte-comp"],
        },
        "rule": "formats = all 35 same-base radices (exponent digits in the radix) + decimal/other exponent-digit radices for 2,3,12,16,36 + "
        "the mixed pairs 4/2, 8/2, 16/2, 32/2, 16/4 (exponent radix 10, 16, 4, 2); per format the C01 generator in that radix: n-digit "
        "neighbours of the halfway point above floats of every (quick: every 2nd f64) binade incl. 0/denormal-min and MAX/overflow, exact "
        "ties with far sticky digits (even radices), non-terminating expansions (odd radices), fast-path limits, zero runs, exponent sweep "
        "beyond the range, exponents beyond i32/i64, random 1..1500 digit strings; complete + partial; judged by the exact oracle reading the "
        "emitted bytes. non-trivial as in C01.",
        "assumptions": ["exponent character '^' (and 'p' for the C hex-float layout 16/2/10)", "oracle as in C01"],
    },
    "C06": {
        "required_paths": {"c06": ["write.binary", "write.hex", "write.scientific", "write.positional-positive-exponent", "write.positional-negative-exponent"]},
        "rule": "formats = radix 2,4,8,16,32 with exponent base = radix, the mixed pairs 4/2 8/2 16/2 32/2 16/4 and several exponent-digit "
        "radices (decimal, 16, 4, 2); notation variants: default breaks, breaks +-1 (exponent notation), breaks +-1200 (positional); values: "
        "every binade x {0, all-ones, 1, all-ones-1, random} mantissas, single-bit mantissas across binades (every residue of the binary "
        "exponent modulo bits-per-digit), all single-bit / low-pattern subnormals, radix powers +-1 ulp, integers, random bits, both signs; "
        "f32 and f64. Judged: output re-read by the exact oracle must EQUAL the float (no tolerance), ASCII, upper-case digits valid for "
        "the radix, sign, and lexical's own parser of the same format returns the identical bits. non-trivial = subnormals, top binade, "
        "mantissas with > 20 set bits.",
        "assumptions": ["exponent character '^' ('p' for 16/2/10)", "oracle as in C01"],
    },
    "C07": {
        "required_paths": {"c06": ["write.radix", "write.scientific", "write.positional-positive-exponent", "write.positional-negative-exponent"]},
        "rule": "formats = the 29 non-decimal non-power-of-two radices (+ decimal / other exponent-digit radix variants); the C06 value and "
        "notation workload plus r^k, r^k +- 1 ulp, (r^k-1)/r^k carry chains, integers 0..4096 (thorough 65536), random integers below 2^53/2^24. "
        "Judged: well-formed (digits < radix, <= 1 point, <= 1 exponent in the exponent radix, ASCII), accepted in full by lexical's parser "
        "of the same format, exact distance < 2048 (f64) / 256 (f32) ulp by the exact oracle, integral floats below 2^53 / 2^24 exact. "
        "The evidence notes carry the largest distance bucket observed. Includes no-std builds (crate-local libm floor).",
        "assumptions": ["the 2048/256 ulp bound is the property's; the oracle measures it exactly"],
    },
    "C08": {
        "rule": WX_RULE + " Judged: every written output is parsed by the complete parser of the SAME format with parse options that agree on decimal point, exponent character and special strings: it must be "
        "accepted in full; integers, zeros, infinities bit-identical, NaN -> NaN (unless the format forbids specials), decimal and power-of-two (incl. mixed-base) floats bit-identical when max_significant_digits is unset.",
        "assumptions": ["generic (non power-of-two) radices: acceptance only, as in the statement", "outputs truncated by max_significant_digits: acceptance only"],
    },
    "C09": {
        "rule": WX_RULE + " Judged: at the documented bound (buffer_size_const / FORMATTED_SIZE_DECIMAL) the call must return, the returned slice must start at the buffer start and lie within it; at every "
        "shorter length it must return within the slice or panic; in all cases no guard-page hit and the canary zone next to the slice intact. distinct_nontrivial = distinct (value, format, options) write events; the counters "
        "c09.short-buffer-* give the number of shorter-buffer calls and how many succeeded / panicked.",
        "assumptions": ["guard pages and canaries see writes (and guard-side reads) outside the slice; reads of the canary side and intra-slice misuse are left to the Miri / ASan / memcheck runs of this check"],
    },
    "C14": {
        "rule": WX_RULE + " Judged against the DEFAULT-options output of the same float in the same format (itself judged): output well-formed with exactly the configured point / exponent characters and sign rules; "
        "significant digits (leading/trailing zeros stripped) <= max; digits from the first non-zero one to the end >= min unless trimmed as an integer; digits == default digits rounded half-even (Round) or cut (Truncate) at max "
        "digits incl. carries (exact digit arithmetic in the radix, odd radices compared against the infinite h.hhh expansion of one half); exponent notation never under no_exponent_notation, always under "
        "required_exponent_notation, otherwise iff a scientific exponent lies outside the breaks; trim_floats output == untrimmed output minus the all-zero fraction.",
        "assumptions": [
            "'scientific exponent' may be read on the default output, on the rounded output, and for power-of-two radices as the binary exponent or its quotient by bits-per-digit / bits-per-exponent-base (the writers use the binary exponent)",
            "mixed-base formats with max_significant_digits: digit counts and notation are judged, the rounded value is not (digit alignment differs between notations)",
        ],
    },
    "C17": {
        "rule": WX_RULE + " Judged: lexical::to_string_with_options bytes == lexical_core::write_with_options bytes for every second (value, format, options) event and every integer event, lexical::to_string == "
        "lexical_core::write for the default API, to_string* never panics under valid options, every written byte < 0x80; lexical::parse / parse_partial / parse_with_options / parse_partial_with_options == the "
        "lexical_core functions (value bits, count, error) for f64, f32, i64, u8, i128, usize on a hostile corpus (seed literals with spliced bytes).",
        "assumptions": [],
    },
    "C16": {
        "rule": "one fixed seeded workload for the default (decimal, STANDARD) API, identical source and inputs in every build configuration (quick: d, c, p, r, f, rf, crf, no-std d, no-std compact, + debug-assertion builds of d and crf; "
        "thorough: all 24 members of {std} x {compact} x {-, power-of-two, radix} x {format}): parse and parse_partial of f64/f32 on the halfway/tie/limit families of every 3rd (thorough: every) binade, the structure family "
        "(zero runs, exponent sweeps, fast-path limits), every 1-2 byte string over a 19-symbol alphabet, spliced special-string / numeral seeds for all 14 types, numerals around every integer type's limits (+-2, extra digit, "
        "leading zeros, junk, truncations); write of boundary + random values of all 12 integer types and of writer-directed f64/f32 values incl. NaN/inf. Every call/return event is rendered as a text record (value bits, count, "
        "error kind and index, output bytes) and hashed into per-(stream, lane, 2048-event chunk) digests; ./check compares the digests of all configurations (parse results and integer output: all equal; float output bytes: "
        "equal among non-compact builds; float output read back by core::str::parse: equal among all builds) and resolves every differing chunk to the individual events by re-running it in both builds. "
        "distinct_nontrivial = events whose result is an error, or whose input has > 19 bytes, plus all write events, in ONE configuration (the workload is the same in all).",
        "assumptions": ["the build whose digest is in the minority is named as the deviating one (majority attribution); panics are compared as 'Panic' without the message"],
    },
    "C18": {
        "rule": "A. run-time sweep of format descriptions through the documented builder setters: ALL 2^18 syntax-flag words, ALL 2^13 separator-flag words x {separator set, unset} (exhaustive), all 256 byte values for each of "
        "digit separator / base prefix / base suffix (in radix 2, 10, 16, 36 contexts) and for mantissa radix / exponent base / exponent radix, pairs of punctuation characters over a 31-character set, every radix 0..40 x every ASCII "
        "character, and 400k (thorough 4M) seeded joint samples over all fields; judged: NumberFormatBuilder::rebuild(fmt).build_strict() panics exactly when the documented constraints (reference predicate, per feature set) are "
        "violated, rebuild is semantically faithful, all 37 builder getters reflect their setters. B. 512 compile-time table formats + all 147 prebuilt formats: format_is_valid == (format_error == Success) == build_strict verdict == "
        "reference, NumberFormat getters give the description back, every prebuilt format valid. C. 60k (thorough 400k) option builder states for ParseFloatOptions / WriteFloatOptions / ParseIntegerOptions (every byte value for "
        "exponent and decimal point, special strings of length 0, 1, 50, 51, wrong first letter, non-letters at each position, None combinations, infinity shorter than inf, min > max digits, breaks of the wrong sign): "
        "is_valid() == build().is_ok() == documented constraints, getters reflect setters, rebuild round trip. D. 12 valid formats (radices, mixed base, separators, prefix/suffix) x (decimal point, exponent) pairs over 0..128 x "
        "5 inputs x {f64, f32} x {complete, partial}: a configuration error exactly when the punctuation clashes with the format (digit of a radix of the format, sign, equal characters, separator/prefix/suffix). "
        "E. (format-table executor px_i0) 64 invalid compile-time formats x 310 inputs x {f64, i64} x {complete, partial}: always a configuration error, never a value, an input error or a panic. "
        "distinct_nontrivial = invalid descriptions + invalid option states + clashing punctuation pairs + invalid-format parses.",
        "assumptions": [
            "a digit separator character set without any separator flag is not packed by build_unchecked; such descriptions are judged without the separator",
            "rebuild fidelity is semantic: an exponent base / exponent radix of 0 means 'same as the mantissa radix'",
            "control characters below 0x20 (other than 0x09-0x0D) and DEL in FORMAT punctuation, and DEL in options punctuation, are not settled by the documentation: either verdict accepted (counter c18.unsure)",
            "which error is reported for an invalid format is not judged, only valid/invalid",
        ],
    },
    "C10": {
        "rule": PX_RULE + " Judged: no panic (release and debug-assertion builds), no guard-page hit, partial count <= len, error index <= len.",
        "assumptions": ["a guard page catches out-of-slice access only within one page of the slice; intra-allocation misuse is left to Miri (thorough tier)"],
    },
    "C11": {
        "rule": PX_RULE + " Judged: complete=Ok(v) <=> partial=Ok((v,len)); partial=Ok((v,n)), 0<n<len => complete(bytes[..n])=Ok(v) (NaN by class).",
        "assumptions": [],
    },
    "C12": {
        "rule": PX_RULE + " Judged (separator-free inputs only): a reference recogniser written from the per-flag documentation tables decides "
        "derivable / not derivable / undocumented; derivable => accepted with the exactly rounded value of its digits (exact oracle) or the exact "
        "integer; not derivable => rejected; special strings via the reference matcher.",
        "assumptions": [
            "where the rendered table, the prose and the embedded doc-test disagree (e.g. '1.' under required_integer_digits, empty mantissa without "
            "required_mantissa_digits, prefix/suffix letters that are digits of the radix) either behaviour is accepted (counter c12.unsure)",
            "which error kind is reported is not judged",
        ],
    },
    "C13": {
        "rule": PX_RULE + " Judged: (1) accepted input with separators => same value after deleting them; (2) every separator run of an accepted "
        "input is at a position (leading/internal/trailing, consecutive, per component) the flags enable; (3) inserting 1-3 separators at every "
        "enabled position of accepted separator-free literals => accepted with the same value (complete and partial); (4) separator-free input "
        "=> identical result (value, count, error kind and index) in the format and its separator-free counterpart (both compiled).",
        "assumptions": ["a component made of separators only counts as leading or trailing", "literals with base prefix/suffix letters are not used for insertion (undocumented interplay)"],
    },
    "C15": {
        "rule": PX_RULE + " Judged (parse side): special accepted exactly when, after the sign rules of the format, the rest equals nan/inf/infinity "
        "(case per flag, separators ignored only with special_digit_separator, never with no_special or None strings); no grammatical number yields "
        "NaN; signs preserved. Write side (write executor): +-0.0 written with/without '-', NaN (either sign, payloads) written exactly as the configured string without '-' "
        "(with '+' only under required_mantissa_sign), +-inf as sign + string, a special whose string is None panics without returning bytes. " + WX_RULE,
        "assumptions": [],
    },
    "C19": {
        "required_paths": {"c01:noncompact": ["parse.fast", "parse.lemire", "parse.moderate-ok"], "c01:compact": ["parse.bellerophon"], "c05:radix": ["parse.bellerophon", "parse.binary"]},
        "rule": "the C01 (decimal) and C05 (all radix formats) workloads parsed with lossy(true): must accept with the full count, never NaN, "
        "correct sign, and be the correctly rounded float or one of its two neighbours (exact oracle); zero and infinity results and exact "
        "zero inputs must be unchanged. Accept/reject/count/error equality with lossy(false) on hostile inputs is checked by the C11 executor.",
        "assumptions": [
            "oracle as in C01",
            "'zero and infinities unchanged' is enforced for exact-zero inputs, for values >= 2^(emax+1) and for values <= 1/4 of the smallest "
            "subnormal; inside the rounding interval around the overflow/underflow thresholds either neighbour (MAX/inf, 0/min-subnormal) is "
            "accepted, which is what the one-step clause of the statement allows",
        ],
    },
}


def replay_input(body):
    return ["replay=" + body["case"]["input"]]


def replay_bits(body):
    return ["replay=" + body["case"]["bits"], "type=" + body["case"]["type"]]


def replay_c03(body):
    c = body["case"]
    return [f"replay={c['type']}:{c['radix']}:{c['value']}"]


def replay_c04(body):
    c = body["case"]
    if "radix" not in c:
        # reported by the default-API executor (c10): it replays the raw input for all types
        return ["prop=C04", "replay=" + c["input"]]
    return [f"replay={c['type']}:{c['radix']}:{c['input']}"]


def replay_px(body):
    c = body["case"]
    return ["prop=" + c["property"], "replay=" + c["input"], "type=" + c["type"]] + (["idx=" + str(c["idx"]), "variant=" + str(c.get("variant", 0))] if "idx" in c else [])


def replay_c05(body):
    c = body["case"]
    a = ["replay=" + c["input"], "format=" + c["format"]]
    if c.get("property") == "C19":
        a.append("lossy=1")
    return a


def replay_c06(body):
    c = body["case"]
    return ["replay=" + c["bits"], "type=" + c["type"], "format=" + c["format"], "prop=" + c["property"]]


def replay_wx(body):
    c = body["case"]
    return ["prop=" + c["property"], "idx=" + str(c["idx"]), "replay=" + c["value"], "type=" + c["type"], "spec=" + (c.get("spec") or "-:-:-:-:0:0:46:101:NaN:inf:infinity")]


def replay_auto(body):
    return replay_wx(body) if body["run"]["bin"].startswith("wx_") else replay_px(body)


REPLAY = {"C18": replay_px, "C16": (lambda body: ["dump=" + body["case"]["chunk"]]), "C08": replay_wx, "C09": replay_wx, "C14": replay_wx, "C17": replay_wx, "C10": replay_px, "C11": replay_px, "C12": replay_px, "C13": replay_px, "C15": replay_auto, "C06": replay_c06, "C07": replay_c06, "C05": replay_c05, "C04": replay_c04, "C01": replay_input, "C02": replay_bits, "C03": replay_c03}
POST = {}
