"""Per-property execution plans: which harness binaries run under which build configuration/profile."""


def run(config, profile, bin, args=(), **kw):
    d = {"config": config, "profile": profile, "bin": bin, "args": list(args)}
    d.update(kw)
    return d


def c01(tier, seed):
    cfgs = ["d", "c", "rf", "crf"] if tier == "quick" else ["d", "c", "p", "r", "f", "rf", "crf", "nd", "nc", "ncrf"]
    runs = [run(c, "rel", "c01") for c in cfgs]
    runs += [run(c, "dbg", "c01", ["small=40"], tag="small") for c in (["d", "c"] if tier == "quick" else cfgs)]
    return runs


PLANS = {
    "C01": c01,
}

META = {
    "C01": {
        "rule": "cases = decimal literals rendered (random point position, zeros, sign, exponent spelling) from: the n-digit "
        "neighbours (n around 17..21, 9, 40+) of the halfway point above >=5 floats of EVERY binade of f64 and f32 incl. "
        "0/min-subnormal and MAX/overflow, exact ties with far-away sticky digits, fast-path limits, zero runs to 2000+, exponent sweep "
        "beyond the finite range, exponents beyond i32/i64/u128, random 1..1500 digit strings; each judged for 4 entry points by the "
        "exact big-integer oracle. non-trivial = distinct inputs that are in a halfway/tie/limit/extreme family, or have > 19 digits, "
        "or whose result is inf/zero/subnormal/first binade.",
        "assumptions": [
            "oracle: /verif/harness/src/{big,oracle}.rs (self-tested against u128 arithmetic, hardware division and core::str::parse on every run)",
            "errors in a power table below 2^-61 relative only flip inputs closer to a halfway point than the 19-21 digit neighbours generated here",
            "a clean Miri/guard-page run means no UB observed on these executions only",
        ],
    },
}


def replay_input(body):
    return ["replay=" + body["case"]["input"]]


REPLAY = {"C01": replay_input}
POST = {}
